#!/venv/bin/python
"""Regenerates the sub-check table between the SUBCHECK markers in DESIGN.md from vf/props/*.SUBS."""
import importlib
import sys
from pathlib import Path

V = Path(__file__).resolve().parent.parent
sys.path.insert(0, str(V))
sys.path.insert(0, "/repo/src")
lines = ["| property | sub-check | engine | quick budget | thorough budget | what it does |", "|---|---|---|---|---|---|"]
ENG = {"hyp": "Hypothesis", "enum": "exhaustive enumeration", "custom": "custom"}
for n in range(1, 21):
    pid = f"C{n:02d}"
    mod = importlib.import_module(f"vf.props.{pid.lower()}")
    for s in mod.SUBS:
        eng = ENG[s.kind]
        if s.name == "fuzz":
            eng = "Atheris / libFuzzer"
        if s.name == "histories":
            eng = "Hypothesis RuleBasedStateMachine"
        q, t = s.budget.get("quick"), s.budget.get("thorough")
        if s.kind == "enum":
            q = t = "complete" if s.exhaustive else f"{q} / {t} configurations"
        lines.append(f"| {pid} | {s.name} | {eng} | {q} | {t} | {s.desc} |")
table = "\n".join(lines)
p = V / "DESIGN.md"
d = p.read_text()
a, b = "<!-- SUBCHECK-TABLE-BEGIN -->", "<!-- SUBCHECK-TABLE-END -->"
if a in d:
    pre, rest = d.split(a, 1)
    _, post = rest.split(b, 1)
    p.write_text(pre + a + "\n" + table + "\n" + b + post)
print(len(lines) - 2, "sub-checks")
