#!/usr/bin/env python3
"""Round-5 prompt: base prompt + what is already taken + 'pick the clause of the statement least likely to be checked'."""
import json, subprocess, sys
from pathlib import Path
pid, wt = sys.argv[1], sys.argv[2]
base = subprocess.run([sys.executable, str(Path(__file__).parent / "agent_prompt.py"), pid, wt], capture_output=True, text=True).stdout
taken = []
for d in sorted(Path('/verif/seeded').iterdir()):
    m = d / 'meta.json'
    if m.exists():
        meta = json.loads(m.read_text())
        if meta['breaks'] == pid:
            needs = " ".join(meta.get('needs', '').split())
            taken.append(f"- {needs[:300]}")
extra = f"""

## Already taken - do NOT repeat these (other people already wrote them for this property)

{chr(10).join(taken)}

Your two changes must use DIFFERENT mechanisms from all of the above (a different function or a different kind of slip).

## How to choose (this round)

Assume the people checking this property already test it with RANDOMLY GENERATED inputs, operation sequences and
configurations against an independent reference, and have already seen all the changes listed above. To find what they
may STILL be missing, work like this:

  1. Split the property statement into its individual clauses / promises (there are usually four to eight). For each clause ask:
     which concrete observable would a checker have to look at to notice a breach (a return value, a particular output file,
     a particular column, a log line, an exit status, a file's mtime, memory use ...)? Clauses whose breach is only visible in an
     observable that is tedious to inspect are the ones checkers skip. Aim your changes at such a clause.
  2. Walk through the code paths that serve the statement and list the entry points: every CLI script and option
     (`pretext-to-asm`, `asm-format`, `python -m tola.fasta.index`, ... incl. options such as --clobber/--no-clobber,
     --autosome-prefix, --log-level, --write-log, -f/--format, stdin/stdout use, several input files at once), every public
     class/function a library user could call directly, and every configuration (constructor arguments with defaults).
     Prefer a path that the list above has not touched.
  3. Think about realistic DATA shapes of the domain that a synthetic generator may not produce: scaffold and contig names
     as real assemblers write them (`scaffold_12`, `HiC_scaffold_3`, `ptg000012l`, `SUPER_X_unloc_2`, `atg000001l_1`,
     `h1tg000004l`, names containing dots, pipes or colons), sex chromosomes and B chromosomes, hundreds of scaffolds,
     haplotype-tagged scaffolds, organelles, contigs used twice (a fragment of a contig appearing in two scaffolds),
     very many tags on one row, TPF files with `?` scaffold/strand fields, AGP files with `#` comment blocks in the middle,
     FASTA with lower-case soft-masking and IUPAC codes, Windows line ends, files without final newline, empty files.
  4. Think about realistic MAINTENANCE: a refactor that replaces a hand-written loop with itertools / bisect / a
     comprehension / a dataclass; a "performance" change; handling of a new Python or library version; a bug fix for
     one reported case that is slightly too general or too narrow; moving a normalisation step from one layer to another.

The change must still need something SPECIFIC to manifest (state what) and must not crash loudly on ordinary inputs.
Avoid anything the existing tests would catch."""
marker = "## Deliverables"
i = base.index(marker)
print(base[:i] + extra.strip("\n") + "\n\n" + base[i:])
