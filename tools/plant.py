#!/venv/bin/python
"""tools/plant.py [name-substring ...] [--tier quick] : apply each planted fault alone, run tests + its checks."""
import argparse, json, os, shutil, subprocess, sys, tempfile, time
from pathlib import Path
from concurrent.futures import ThreadPoolExecutor

VERIF = Path(__file__).resolve().parent.parent
sys.path.insert(0, str(VERIF / "planted"))
sys.path.insert(0, str(VERIF / "tools"))
from faults import FAULTS
from seeded import Worktree, run_tests, run_checks


def one(f, tier):
    name, file, old, new, checks = f
    with Worktree() as wt:
        p = wt / "src" / "tola" / file
        s = p.read_text()
        if old not in s:
            return name, "OLD TEXT NOT FOUND", {}
        p.write_text(s.replace(old, new, 1))
        ok, tail = run_tests(wt)
        res = run_checks(wt, checks, tier)
    return name, ("tests pass" if ok else "TESTS FAIL: " + tail), res


def main():
    ap = argparse.ArgumentParser()
    ap.add_argument("names", nargs="*")
    ap.add_argument("--tier", default="quick")
    ap.add_argument("-j", type=int, default=1)
    a = ap.parse_args()
    sel = [f for f in FAULTS if not a.names or any(n in f[0] for n in a.names)]
    results = {}
    with ThreadPoolExecutor(a.j) as ex:
        for name, tests, res in ex.map(lambda f: one(f, a.tier), sel):
            status = " ".join(f"{c}:{'CAUGHT' if r['exit']==1 else ('MISSED' if r['exit']==0 else 'ERR2')}({r['wall_s']}s)" for c, r in res.items())
            print(f"{name:42s} {tests:12s} {status}", flush=True)
            for c, r in res.items():
                if r["exit"] == 2:
                    print("    ", r.get("stderr", "")[-300:])
            results[name] = {"tests": tests, "checks": res}
    out = VERIF / "planted" / "results.json"
    prev = json.loads(out.read_text()) if out.exists() else {}
    prev.update(results)
    out.write_text(json.dumps(prev, indent=1) + "\n")


if __name__ == "__main__":
    main()
