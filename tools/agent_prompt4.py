#!/usr/bin/env python3
"""Round-4 prompt: as agent_prompt.py, plus a list of changes already written by other people for this property (to avoid repeats)."""
import json, subprocess, sys
from pathlib import Path
pid, wt = sys.argv[1], sys.argv[2]
base = subprocess.run([sys.executable, str(Path(__file__).parent / "agent_prompt.py"), pid, wt], capture_output=True, text=True).stdout
taken = []
for d in sorted(Path('/verif/seeded').iterdir()):
    m = d / 'meta.json'
    if m.exists():
        meta = json.loads(m.read_text())
        if meta['breaks'] == pid or pid in meta.get('checks', {}):
            needs = " ".join(meta.get('needs', '').split())
            taken.append(f"- {needs[:420]}")
extra = f"""

## Already taken - do NOT repeat these (other people already wrote them for this property)

{chr(10).join(taken)}

Your two changes must use DIFFERENT mechanisms from all of the above (a different function or a different kind of slip), and should be HARDER to notice: prefer
  - two cooperating sites that each look fine alone (e.g. a caller and a callee that now disagree about a unit, an inclusive/exclusive bound, an ordering, who strips/normalises what);
  - state that survives between steps (a cache, a counter, an attribute set in one phase and read in a later one) so that only a particular multi-step sequence shows the problem;
  - a rarely used configuration, flag, mode or input shape that the existing tests never combine;
  - boundary arithmetic that is right for the common case and wrong only at an exact equality.
Avoid anything the existing tests would catch, and avoid changes that make the program crash loudly on ordinary inputs.

Assume the people checking this property already test it with RANDOMLY GENERATED inputs, operation sequences and
configurations and compare against an independent reference. So aim for breakage that random generation is UNLIKELY to
hit by chance: it should need an exact coincidence (two independently chosen quantities being equal, a value landing
exactly on a boundary such as a multiple of the line width / buffer size / texel size), or three or more specific
ingredients at once, or a feature / option / code path that people rarely think of (another CLI option, another entry
point or script that reaches the same code, stdin input, a second call on the same object, an unusual but legal file
layout). If possible put at least one of the two changes in a file or function that none of the changes listed above touched.

Ideas that have worked badly for checkers in the past (use them only where they give a REALISTIC change for this code):
  - classic Python pitfalls introduced by a well-meant clean-up: a mutable default argument or a class-level attribute that
    silently becomes shared state; truthiness tests where 0 / "" / empty containers are legitimate values; `is` vs `==`;
    integer vs float division or rounding (round half to even, floor vs int() on negatives); relying on sort stability or
    dict / set iteration order; `str` methods vs `bytes` methods; a generator consumed twice; a `try/except` that became too
    broad and now swallows the error that used to stop the run;
  - turning a loud failure into a silent wrong result (the statement often demands "an error, never a silently wrong
    result"), or a guard / sanity check whose condition is now subtly weaker;
  - an "optimisation" (memoisation, early exit, skipping work that "cannot matter") whose assumption is almost always true;
  - behaviour that only differs for very large values, very long names, or inputs several buffers / several megabytes long."""
marker = "## Deliverables"
i = base.index(marker)
print(base[:i] + extra.strip("\n") + "\n\n" + base[i:])
