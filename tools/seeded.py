#!/venv/bin/python
"""
Seeded-change bookkeeping.

  tools/seeded.py confirm <dir-with-patch.diff+demo.py> <name> --breaks C12 [--checks C12,C18]
      In a scratch worktree of /repo HEAD under /var/tmp: demo passes on the clean tree, patch applies,
      the 64 tests pass with it, demo fails with it. Then runs the named checks (quick tier) against the
      mutated worktree (VERIF_REPO) and stores everything as /verif/seeded/<name>/.

  tools/seeded.py run <name>|all [--checks ...] [--tier quick]
      Re-runs checks against stored seeded changes and updates meta.json / prints a table.
"""
import argparse
import json
import os
import shutil
import subprocess
import sys
import tempfile
import time
from pathlib import Path

VERIF = Path(__file__).resolve().parent.parent
SEEDED = VERIF / "seeded"
PY = "/venv/bin/python"


def sh(cmd, **kw):
    return subprocess.run(cmd, capture_output=True, text=True, **kw)


class Worktree:
    def __enter__(self):
        self.dir = Path(tempfile.mkdtemp(prefix="atu-mut-", dir="/var/tmp"))
        self.dir.rmdir()
        r = sh(["git", "-C", "/repo", "worktree", "add", "-q", "--detach", str(self.dir), "HEAD"])
        if r.returncode:
            raise SystemExit(r.stderr)
        return self.dir

    def __exit__(self, *a):
        sh(["git", "-C", "/repo", "worktree", "remove", "--force", str(self.dir)])
        shutil.rmtree(self.dir, ignore_errors=True)


def env_for(wt):
    e = dict(os.environ)
    e["PYTHONPATH"] = str(wt / "src")
    return e


def run_tests(wt):
    r = sh([PY, "-m", "pytest", "-q", "-p", "no:cacheprovider", "-x"], cwd=wt, env=env_for(wt))
    tail = r.stdout.strip().splitlines()[-1] if r.stdout.strip() else r.stderr[-200:]
    return r.returncode == 0 and "64 passed" in tail, tail


def run_demo(wt, demo):
    r = sh([PY, str(demo)], cwd=wt, env=env_for(wt), timeout=600)
    return r.returncode, (r.stdout + r.stderr)[-400:]


def apply_patch(wt, patch):
    r = sh(["git", "-C", str(wt), "apply", "--3way", str(patch)])
    if r.returncode:
        r = sh(["git", "-C", str(wt), "apply", str(patch)])
    return r.returncode == 0, r.stderr


def run_checks(wt, checks, tier):
    out = {}
    for c in checks:
        evd = tempfile.mkdtemp(prefix="atu-ev-", dir="/var/tmp")
        e = dict(os.environ, VERIF_REPO=str(wt), VERIF_EVIDENCE_DIR=evd)
        t0 = time.time()
        r = sh([str(VERIF / "check"), c, "--tier", tier], cwd=VERIF, env=e)
        lines = [l for l in r.stdout.splitlines() if l.startswith(("VIOLATION", "violation", "replay", "OK", "INCONCLUSIVE"))]
        msg = next((l for l in r.stdout.splitlines() if l.startswith(("violation", "replay "))), "")
        out[c] = {"exit": r.returncode, "wall_s": round(time.time() - t0, 1), "first_message": msg[:300]}
        if r.returncode == 2:
            out[c]["stderr"] = r.stderr[-500:]
        shutil.rmtree(evd, ignore_errors=True)
    return out


def confirm(args):
    src = Path(args.dir)
    patch, demo = src / "patch.diff", src / "demo.py"
    meta = {"name": args.name, "breaks": args.breaks, "confirmed": {}}
    with Worktree() as wt:
        rc, out = run_demo(wt, demo)
        meta["confirmed"]["demo_on_clean_exit"] = rc
        ok, err = apply_patch(wt, patch)
        meta["confirmed"]["patch_applies"] = ok
        if not ok:
            print("patch does not apply:", err)
            return 1
        ok, tail = run_tests(wt)
        meta["confirmed"]["tests_pass_with_change"] = ok
        meta["confirmed"]["tests_tail"] = tail
        rc2, out2 = run_demo(wt, demo)
        meta["confirmed"]["demo_with_change_exit"] = rc2
        meta["confirmed"]["demo_with_change_tail"] = out2[-300:]
        good = rc == 0 and ok and rc2 != 0
        meta["confirmed"]["all"] = good
        print(f"{args.name}: demo clean={rc} tests_ok={ok} demo mutated={rc2} -> {'CONFIRMED' if good else 'REJECTED'}")
        if not good:
            print(out[-300:], out2[-300:], tail)
            return 1
        checks = args.checks.split(",") if args.checks else [args.breaks]
        meta["checks"] = run_checks(wt, checks, args.tier)
        # refreshed diff against current HEAD
        diff = sh(["git", "-C", str(wt), "diff", "HEAD", "--", "src"]).stdout
    dst = SEEDED / args.name
    dst.mkdir(parents=True, exist_ok=True)
    (dst / "patch.diff").write_text(diff)
    shutil.copy(demo, dst / "demo.py")
    notes = src / "notes.md"
    meta["needs"] = notes.read_text() if notes.exists() else ""
    meta["ran"] = ("scratch worktree of /repo HEAD under /var/tmp: demo.py on clean tree (exit 0), git apply patch.diff, "
                   "pytest (64 passed), demo.py (non-zero), then ./check <ID> --tier quick with VERIF_REPO=<worktree>")
    (dst / "meta.json").write_text(json.dumps(meta, indent=1) + "\n")
    for c, r in meta["checks"].items():
        print(f"   check {c}: exit {r['exit']} in {r['wall_s']}s  {r['first_message'][:150]}")
    return 0


def rerun(args):
    names = sorted(p.name for p in SEEDED.iterdir() if p.is_dir()) if args.name == "all" else [args.name]
    for name in names:
        d = SEEDED / name
        meta = json.loads((d / "meta.json").read_text())
        checks = args.checks.split(",") if args.checks else sorted(set(meta.get("checks", {})) | {meta["breaks"]})
        with Worktree() as wt:
            ok, err = apply_patch(wt, d / "patch.diff")
            if not ok:
                print(f"{name}: patch no longer applies: {err[:200]}")
                continue
            res = run_checks(wt, checks, args.tier)
        meta.setdefault("checks", {}).update(res)
        (d / "meta.json").write_text(json.dumps(meta, indent=1) + "\n")
        print(name, "breaks", meta["breaks"], {c: r["exit"] for c, r in res.items()},
              "  ".join(f"{c}:{r['wall_s']}s" for c, r in res.items()))


def main():
    ap = argparse.ArgumentParser()
    sp = ap.add_subparsers(dest="cmd", required=True)
    c = sp.add_parser("confirm")
    c.add_argument("dir"); c.add_argument("name"); c.add_argument("--breaks", required=True)
    c.add_argument("--checks"); c.add_argument("--tier", default="quick")
    r = sp.add_parser("run")
    r.add_argument("name"); r.add_argument("--checks"); r.add_argument("--tier", default="quick")
    a = ap.parse_args()
    sys.exit(confirm(a) if a.cmd == "confirm" else rerun(a))


if __name__ == "__main__":
    main()
