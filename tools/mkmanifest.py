#!/venv/bin/python
"""Regenerates /verif/MANIFEST.json from the table below and validates it against the schema."""
import json
import sys
from pathlib import Path

HERE = Path(__file__).resolve().parent.parent
sys.path.insert(0, str(HERE))

ALL = [f"C{n:02d}" for n in range(1, 21)]

# id -> (category, technique, level text, level note, design ref)
CHECKS = {
    "C09": (
        "exploration",
        "property-based testing (Hypothesis): constructed consistent taggings, expected destination per piece derived from the statement, located via the C02 core oracle (API and CLI file names)",
        "Tagged PretextView-model maps (one/two haplotypes, Target mode, piece tags on any piece, haplotype-prefixed unplaced "
        "scaffolds, spelling-case variation) are remapped; each piece's core and every left-over contig must be found in exactly "
        "the assembly (API) / file (CLI) the statement assigns; one haplotype must not be split over assemblies differing in case.",
        "Trusted: expected_destinations() in vf/props/c09.py (20 lines from the statement); runs ending in TaggingError/ChrNamerError are not judged (0.3%).",
        "DESIGN.md section 5 / C09",
    ),
    "C10": (
        "exploration",
        "property-based testing (Hypothesis): validity predicate on names, ranks, order and CSV reports over tagged maps with many painted scaffolds; exact-length sub-domain",
        "Per output assembly: unique names, autosomes <prefix>1..n without holes and non-increasing first-haplotype sequence length, "
        "homologues share the group head's number (canonical layouts), name tags, unloc and haplotig numbering / size order, rank and "
        "numeric-aware order, chromosome list and report CSVs. Ties are free. One open finding (KF-C10-1) is excluded by predicate.",
        "Trusted: roles read from rank/original_name attributes of returned scaffolds, cross-checked with the map; the CLI sub-check is name-only.",
        "DESIGN.md section 5 / C10",
    ),
    "C15": (
        "fault_enumeration",
        "stateful property-based testing (Hypothesis rule-based machine) for histories + exhaustive crash-point enumeration and harness-scheduled interleavings through a file-operation shim",
        "Histories of rewrite/delete/age/auto_load with a harness-owned clock; for generated (FASTA, initial cache state, flush size) "
        "EVERY crash point of the indexing run at file-operation / flush granularity is injected and a fresh load must be right or "
        "raise; 2-3 virtual processes are interleaved one file operation at a time under drawn schedules. Fault enumeration is the "
        "right level: the crash/schedule space per configuration is finite and enumerated or densely sampled, the configurations are sampled.",
        "Trusted: vf/fsim.py (shim: completed operations persist, unflushed buffers are lost, reads atomic at open), ref.read_fasta. Power loss and kernel-level races are out of scope.",
        "DESIGN.md section 5 / C15",
    ),
    "C16": (
        "exploration",
        "property-based testing (Hypothesis) over CLI runs: fresh run / --no-clobber with a generated pre-existing subset of sentinel files / default --clobber",
        "For generated runs producing every kind of output file, a drawn non-empty subset of the outputs is pre-created with sentinel "
        "bytes and old mtimes: --no-clobber must exit non-zero, name a colliding file and leave every sentinel untouched; the default "
        "run over long sentinels must reproduce the fresh run byte for byte. 1 in 8 cases in a subprocess for the real exit status.",
        "Trusted: byte and mtime comparison of files; click's CliRunner for in-process exit codes.",
        "DESIGN.md section 5 / C16",
    ),
    "C17": (
        "exploration",
        "metamorphic property-based testing (Hypothesis) over process-level configurations: byte equality of all outputs with a baseline run",
        "Generated tagged maps (several tags per scaffold, haplotype tags in two spellings) and real specimens are run under different "
        "PYTHONHASHSEED values, working directories and relative/absolute arguments (subprocesses), cold/warm/stale caches, stream buffer "
        "sizes, interleaved invocations in one process, and with the input supplied as FASTA, AGP or TPF; all outputs must agree.",
        "Trusted: file comparison; log lines containing the run's absolute directories are dropped (the exclusion the statement allows).",
        "DESIGN.md section 5 / C17",
    ),
    "C03": (
        "exploration",
        "property-based testing (Hypothesis): differential against a reference 'apply AGP to FASTA' (API with injected reference index; CLI end to end)",
        "FastaStream output for arbitrary assemblies over generated FASTA files (sub-intervals starting mid-line, three strands, "
        "gaps of 0..5 buffers, buffers 1..10^6, six line lengths) must be byte-identical to a 20-line reference; end to end every "
        "written .fa must equal its sibling .agp applied to the input FASTA, with unique record names and equal lengths.",
        "Trusted: vf/ref.py read_fasta / apply_agp_to_fasta / hand-typed complement table; '?' rows are written forward (AGP spec).",
        "DESIGN.md section 5 / C03",
    ),
    "C04": (
        "exploration",
        "property-based testing (Hypothesis): differential against a reference faidx reader, all-interval random access, run-length reference",
        "Generated well-formed FASTA bytes (LF/CRLF, widths 1-80, with/without final newline, N/IUPAC/odd-symbol runs at line and "
        "buffer boundaries, empty records) x buffer sizes: index quintuples, random access for all (short) or drawn + boundary "
        "intervals, derived assembly, stream-back and .fai text against the reference; duplicate names and record-less files must raise.",
        "Trusted: vf/ref.py read_fasta / acgt_runs. The per-line pair is not compared for records without a terminated sequence line.",
        "DESIGN.md section 5 / C04",
    ),
    "C05": (
        "exploration",
        "property-based testing (Hypothesis): round-trip oracles (parse o format, format o parse, AGP->TPF->AGP via CLI) and a one-row-per-line differential on corrupted text",
        "Generated assemblies with awkward names (':', '-', spaces, digits only, 'x:1-2'), coordinates to 10^12, three strands, tags, all "
        "AGP gap types and header lines are round-tripped through both formats and through asm-format; corrupted canonical text must "
        "raise or yield exactly one row per data line in the scaffold the line names.",
        "Trusted: plain-data comparison (not the code's __eq__); the domain excludes what the line grammars cannot carry (stated in evidence).",
        "DESIGN.md section 5 / C05",
    ),
    "C06": (
        "exploration",
        "property-based testing (Hypothesis): independent AGP validator over AGP text from format_agp, the remapper, the CLIs and the FASTA cache",
        "Every AGP text produced for generated assemblies, for every assembly returned by remapping model and perturbed maps, by "
        "pretext-to-asm (incl. the companion of FASTA output, checked against the FASTA records, with small stream buffers) and as the "
        ".agp cache is validated for tiling, part numbers, span arithmetic, gap columns and total lengths.",
        "Trusted: vf/ref.py agp_validate. Assemblies with two scaffolds of one name are validated scaffold by scaffold.",
        "DESIGN.md section 5 / C06",
    ),
    "C13": (
        "exploration",
        "property-based testing (Hypothesis) differential across buffer sizes with chunk/read/write monitors + allocation-peak measurement on generated large configurations",
        "Index and stream results must be identical for every buffer size (1, 2, primes, width+-1, fragment length+-1) and equal the "
        "reference; monitors bound every chunk, every span requested, every file read and every write by the buffer size; "
        "tracemalloc peaks while indexing/streaming 2-4 MB sequences, fragments and gaps at B=1000/4096/10000 must stay below 8B+64KiB.",
        "Trusted: tracemalloc as the measure of memory held; the bound's margins are stated in evidence assumptions.",
        "DESIGN.md section 5 / C13",
    ),
    "C14": (
        "exploration",
        "property-based testing (Hypothesis) of involution / commutation laws + exhaustive 256-byte table check",
        "Complement table checked on all 256 byte values against a hand-typed IUPAC table; reverse_complement twice = identity on "
        "arbitrary byte strings; Scaffold.reverse laws on scaffolds with +,-,unknown strands, tags and gaps; stream(reverse(s)) = "
        "reference reverse complement of stream(s) over generated FASTA and buffer sizes; OverlapResult.to_scaffold with a minus bait.",
        "Trusted: vf/ref.py COMPLEMENT (30 letters) and revcomp. Streaming law stated for oriented rows only.",
        "DESIGN.md section 5 / C14",
    ),
    "C18": (
        "exploration",
        "property-based testing (Hypothesis) over operation sequences with an independent invariant checker after every step + exhaustive small scope",
        "Overlap results from the real lookup are driven through generated sequences of discard/trim operations; after every step an "
        "independent checker recomputes span, row provenance (identity with source rows, strand-aware terminal shortening) and all "
        "derived figures from the source layout. All scaffolds of <=2/3 rows x all baits x all sequences of <=3 of 9 operations are enumerated.",
        "Trusted: the checker in vf/props/c18.py; contig names unique within a scaffold.",
        "DESIGN.md section 5 / C18",
    ),
    "C19": (
        "exploration",
        "exhaustive enumeration of interval pairs against set arithmetic + property-based testing (Hypothesis) of the scan and the CLI report against a brute-force pair scan",
        "The four interval predicates are checked on ALL interval pairs in 1..12 (quick) / 1..20 (thorough) x strands x same/different "
        "names; the all-against-all scan and asm-format --qc-overlaps are compared with a brute-force base-set scan on generated assemblies.",
        "Trusted: Python range/set arithmetic. Fragments are identified by position.",
        "DESIGN.md section 5 / C19",
    ),
    "C20": (
        "exploration",
        "property-based testing (Hypothesis): permutation consistency and metamorphic numeric-order relations + exhaustive small alphabet",
        "Sorting generated name sets (I/V/X runs, leading zeros, digits at either end) in two permutations must succeed and agree on "
        "the key sequence; decimal and I..IV numerals compare by value, unlocs sort directly after their chromosome, rank precedes name; "
        "all 4680 names of length <= 4 over {I,V,X,0,1,2,_,a} are keyed and sorted.",
        "Trusted: the metamorphic relations are taken from the statement; no reference key function is assumed.",
        "DESIGN.md section 5 / C20",
    ),
    "C01": (
        "exploration",
        "property-based testing (Hypothesis) of the remapper against an independent partition oracle, API and CLI level",
        "Generated (input assembly, PretextView-model or perturbed map, texel size) triples are remapped; every completed run's "
        "output fragments over all assemblies must tile every input contig exactly once and invent nothing; errors are allowed. "
        "The CLI sub-check re-reads the written AGP/TPF files with an independent reader. Exploration: the input space is "
        "unbounded and the oracle is cheap, so dense seeded sampling of the geometry classes (sub-texel contigs, reverse strands, "
        "overlapping / duplicated / out-of-range pieces) is the reachable level.",
        "Trusted: vf/ref.py partition_violation and the plain AGP/TPF readers; Hypothesis. Contigs are unique in the input.",
        "DESIGN.md section 5 / C01",
    ),
    "C02": (
        "exploration",
        "property-based testing (Hypothesis) with a validity-predicate oracle (core run, order, exact deep cuts) over PretextView-model maps",
        "Every generated PretextView-model edit script must remap without error; for each piece the bases more than 3*(1+floor(t)) "
        "from its ends must appear as one contiguous collinear run in exactly one output scaffold with the right strands and input "
        "gaps, in Pretext order, and deep cuts must be exact. Many outputs are acceptable, so the oracle is a predicate, not an "
        "expected value. Exploration over texel sizes 1..5000, mixed strands, cuts snapped near contig ends.",
        "Trusted: vf/ref.py core_segments / find_run; the generator's PretextView model (coords floor(k*bp_per_texel), pieces >= 2 texels).",
        "DESIGN.md section 5 / C02",
    ),
    "C07": (
        "exploration",
        "property-based testing (Hypothesis): input neighbour table vs every output junction and gap run",
        "For generated model maps (weighted to left-over trailing contigs, absent scaffolds, cut-and-rejoined contigs) and for "
        "perturbed maps that complete, every pair of consecutive output fragments and every gap run is compared with the input's "
        "neighbour table. Exploration with targeted generators for the left-over path the specimens never exercise.",
        "Trusted: vf/ref.py adjacencies / neighbour_table. Abutting sub-fragments of one cut contig may be adjacent.",
        "DESIGN.md section 5 / C07",
    ),
    "C08": (
        "exploration",
        "property-based testing (Hypothesis): identity oracle on generated null maps (API and CLI)",
        "Generated null maps (floor/ceil texel rounding, sub-texel scaffolds absent, precondition enforced by construction) must "
        "reproduce the input exactly with zero statistics; painted null maps may change only names and order. One open finding "
        "(KF-C08-1, fractional texel edge) is listed in known_findings.json and excluded by predicate.",
        "Trusted: plain-data comparison of rows; ref.read_agp for the CLI sub-check. Names outside the haplotype-prefix pattern.",
        "DESIGN.md section 5 / C08",
    ),
    "C11": (
        "exploration",
        "property-based testing (Hypothesis): differential against an independent unordered-adjacency count (API, log line, info.yaml)",
        "Reported cuts / breaks / joins are compared with a count made from the statement's definition (adjacency = unordered pair "
        "of facing contig ends) on generated maps with mixed-strand junctions, whole-scaffold reversals, cuts and perturbed maps; "
        "the CLI sub-check parses the log line and info.yaml and counts haplotig scaffolds written.",
        "Trusted: vf/ref.py adjacency_set (no code shared with Fragment.junction_tuple).",
        "DESIGN.md section 5 / C11",
    ),
    "C12": (
        "exploration",
        "property-based testing (Hypothesis) + exhaustive small-scope enumeration against a brute-force scan oracle",
        "Generated scaffolds x query intervals compared with a brute-force scan written from the statement; the sub-domain "
        "'<=4 (quick) / <=6 (thorough) rows of {fragment,gap} x length {1,2,3}, every interval up to len+3' is enumerated "
        "completely. Exploration is the right level: the lookup is a pure function with a trivially correct reference, so "
        "dense sampling plus a complete small scope reaches every branch of the binary search, extension and gap-stripping loops.",
        "Trusted: vf/ref.py brute_overlap (12 lines), Hypothesis. Assumes scaffolds with >=1 row and row lengths >=1.",
        "DESIGN.md section 5 / C12",
    ),
}

NOT_APPLICABLE = {
}


def main():
    checks = []
    for pid in ALL:
        if pid not in CHECKS:
            continue
        cat, tech, text, note, ref = CHECKS[pid]
        checks.append({
            "property_id": pid,
            "quick_cmd": f"./check {pid} --tier quick",
            "thorough_cmd": f"./check {pid} --tier thorough",
            "evidence_file": f"evidence/{pid}.json",
            "replay_cmd_template": f"./check {pid} --replay {{path}}",
            "engine": "vf",
            "level_claimed": {"category": cat, "text": text, "design_ref": ref},
            "level_note": note,
            "technique": tech,
        })
    na = [{"property_id": pid, "reason": NOT_APPLICABLE.get(pid, "check not built yet in this session (planned: see DESIGN.md section 5); not a limit of the technique")}
          for pid in ALL if pid not in CHECKS]
    manifest = {
        "version": 1,
        "setup_cmd": "./setup.sh",
        "hooks": {
            "guard": "TOLA_AGP_TPF_UTILS_VERIF",
            "enable": "no hooks are compiled into /repo: checks wrap objects handed to the code (file proxies, Path subclasses, module attributes patched for the duration of a case); the guard variable is reserved and unused",
            "baseline_off_cmd": "cd /repo && /venv/bin/python -m pytest -ra -q -p no:cacheprovider --timeout=900 --continue-on-collection-errors",
            "source_commits": [],
            "add_only": True,
        },
        "engines": [
            {"name": "vf", "path": "vf/", "serves_properties": sorted(CHECKS),
             "kind_free_text": "Hypothesis property-based tests, stateful machines, exhaustive small-scope enumeration and fault/schedule enumeration sharded over 16 processes; entry point ./check"},
        ],
        "checks": checks,
        "not_applicable": na,
        "notes": "All checks run against /repo's working tree (sys.path[0]=/repo/src, asserted). VERIF_SEED seeds every Hypothesis run; PYTHONHASHSEED=0 is forced unless a check varies it. Exit 2 = harness error / inconclusive, never a VIOLATION. known_findings.json lists open findings and fixed: entries.",
    }
    out = HERE / "MANIFEST.json"
    out.write_text(json.dumps(manifest, indent=1) + "\n")
    try:
        import jsonschema
        schema = json.loads(Path("/root/.vp/MANIFEST.schema.json").read_text())
        jsonschema.validate(manifest, schema)
        print("MANIFEST.json valid;", len(checks), "checks,", len(na), "not_applicable")
    except ImportError:
        print("MANIFEST.json written (jsonschema not importable here; validate with python3-vt)")


if __name__ == "__main__":
    main()
