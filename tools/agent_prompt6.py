#!/usr/bin/env python3
"""Round-6 prompt: base prompt + what is already taken + 'write your own random checker first, then find what survives it'."""
import json, subprocess, sys
from pathlib import Path
pid, wt = sys.argv[1], sys.argv[2]
base = subprocess.run([sys.executable, str(Path(__file__).parent / "agent_prompt.py"), pid, wt], capture_output=True, text=True).stdout
taken = []
for d in sorted(Path('/verif/seeded').iterdir()):
    m = d / 'meta.json'
    if m.exists():
        meta = json.loads(m.read_text())
        if meta['breaks'] == pid:
            needs = " ".join(meta.get('needs', '').split())
            taken.append(f"- {needs[:300]}")
extra = f"""

## Already taken - do NOT repeat these (other people already wrote them for this property)

{chr(10).join(taken)}

Your two changes must use DIFFERENT mechanisms from all of the above (a different function or a different kind of slip).

## How to choose (this round)

Assume the people checking this property already test it with RANDOMLY GENERATED inputs, operation sequences and
configurations against an independent reference, and have already seen all the changes listed above (and extended their
generators so that each of those is now caught). Work like this:

  1. Write yourself a QUICK random checker for this property first (plain `random` or the `hypothesis` package, which is
     installed for /venv/bin/python): a generator of inputs / operation sequences / configurations that the statement
     quantifies over, plus an independent oracle. Keep it in {wt}/scratch/ (not part of the deliverables). Make it
     reasonably broad - it stands in for what the checkers probably have.
  2. Then look for changes that pass the 64 tests AND survive a few thousand cases of your own checker, yet do break the
     property: find them by reasoning about what your generator can NOT produce or your oracle does NOT look at, e.g.
       - the interaction of two tools or two runs: an output fed back as input (pretext-to-asm output re-formatted by
         asm-format and remapped again; a written FASTA indexed again; a cache written by one option set and read under
         another), the second of two input files, results that depend on what an earlier call left behind;
       - the environment: relative vs absolute paths and the working directory, output directory given with a trailing
         slash or as `.`, file names with spaces / dots / several extensions / upper case, `-` or /dev/stdin as a file
         name, a read-only or missing directory, the locale / default text encoding, non-ASCII bytes in names or headers;
       - numbers: texel sizes such as 1.0, 0.5, 1e6 + 0.5, values written in the Pretext header with many decimals or in
         scientific notation, lengths of exactly 0 or 1, counts of exactly 0 (no scaffold painted, no gap at all, an empty
         scaffold, an assembly without scaffolds), values at 2**31 / 2**32 / 2**53, float vs int arithmetic on coordinates;
       - quantity and repetition: the same name / tag / contig / file given twice, the same tag twice on one row, hundreds
         of tags, one scaffold with thousands of rows, recursion depth, quadratic behaviour that turns into a timeout;
       - API surface next to the documented path: keyword arguments with defaults, properties with setters, objects
         re-used after a method that was assumed to be called once, subclasses (OverlapResult is a Scaffold;
         IndexedAssembly is an Assembly) handed to functions written for the base class, copy / deepcopy / pickling,
         equality and hashing of the value classes, `__str__`/`__repr__` used for output.
  3. Prefer a change in a file or function that the list above has not touched, and a breach of a clause of the statement
     that none of the listed changes aimed at.

The change must still need something SPECIFIC to manifest (state what) and must not crash loudly on ordinary inputs.
Avoid anything the existing tests would catch."""
marker = "## Deliverables"
i = base.index(marker)
print(base[:i] + extra.strip("\n") + "\n\n" + base[i:])
