#!/usr/bin/env python3
"""Round-9 prompt: as round 8; used for the ten properties with the most first-time misses in rounds 7 and 8."""
import json, subprocess, sys
from pathlib import Path
pid, wt = sys.argv[1], sys.argv[2]
base = subprocess.run([sys.executable, str(Path(__file__).parent / "agent_prompt.py"), pid, wt], capture_output=True, text=True).stdout
taken = []
for d in sorted(Path('/verif/seeded').iterdir()):
    m = d / 'meta.json'
    if m.exists():
        meta = json.loads(m.read_text())
        if meta['breaks'] == pid:
            needs = " ".join(meta.get('needs', '').split())
            taken.append(f"- {needs[:300]}")
extra = f"""

## Already taken - do NOT repeat these (other people already wrote them for this property)

{chr(10).join(taken)}

Your two changes must use DIFFERENT mechanisms from all of the above (a different function or a different kind of slip).

## How to choose (this round)

This round asks for PLAIN, REALISTIC bugs - the kind that really get committed: an off-by-one, `<` for `<=`, the wrong one of
two similar variables (start/end, first/last, row/bait, input/output, length with or without gaps), a dropped or inverted
condition, a condition moved inside / outside a loop, an early `return` / `continue` / `break` in the wrong place, a wrong
default, a forgotten update of a second data structure that mirrors the first, a copy-and-paste branch that was not fully
adapted (the minus-strand branch, the last-row branch, the CRLF branch), an edge case handled in one caller but not in the
other. No exotic environments, interpreter flags or giant inputs are needed: the change should show on small, ordinary-looking
inputs of the right SHAPE (say which shape), through the main API or CLI path.

Before choosing, list the functions and methods of the files named under "Code areas involved" (and of the modules they
call into: src/tola/assembly/*.py, src/tola/fasta/*.py, src/tola/assembly/scripts/*.py) and mark which of them the changes
listed above already touched. Put your changes into functions that are still UNMARKED whenever such a function can affect
this property at all; only fall back to an already-touched function with a clearly different slip in a different line.

Produce THREE such changes this time (mutants A, B and C; same deliverables for C as for A and B), in three different functions
if possible, each different from everything in the list above. For each one first check with a few hand-made inputs that the
existing tests really do not notice it and that ordinary inputs are not all broken by it.

The change must still need something SPECIFIC to manifest (state what) and must not crash loudly on ordinary inputs.
Avoid anything the existing tests would catch."""
marker = "## Deliverables"
i = base.index(marker)
out = base[:i] + extra.strip("\n") + "\n\n" + base[i:]
out = out.replace("Produce TWO different, independent source changes (call them mutant A and mutant B)", "Produce THREE different, independent source changes (call them mutant A, mutant B and mutant C)").replace("  {wt}/mutants/B/...          - same for B".format(wt=wt), "  {wt}/mutants/B/...          - same for B\n  {wt}/mutants/C/...          - same for C".format(wt=wt))
print(out)
