#!/usr/bin/env python3
"""Regenerates seeded/README.md and the table between the SEEDED markers in DESIGN.md from seeded/*/meta.json."""
import json
from pathlib import Path

V = Path(__file__).resolve().parent.parent
rows = []
for d in sorted((V / "seeded").iterdir()):
    m = d / "meta.json"
    if not m.exists():
        continue
    meta = json.loads(m.read_text())
    needs = " ".join(meta.get("needs", "").split())
    first = needs.split(". ")[0][:160] if needs else ""
    checks = meta.get("checks", {})
    caught = [c for c, r in checks.items() if r["exit"] == 1]
    missed = [c for c, r in checks.items() if r["exit"] == 0]
    rows.append((meta["name"], meta["breaks"], ", ".join(f"{c} ({checks[c]['wall_s']}s)" for c in caught) or "-",
                 ", ".join(missed) or "-", meta.get("history", "")))
lines = ["| seeded change | breaks | caught by (quick tier) | run but quiet | note |", "|---|---|---|---|---|"]
for r in rows:
    lines.append("| " + " | ".join(r) + " |")
table = "\n".join(lines)
(V / "seeded" / "README.md").write_text(
    "# Seeded changes\n\nEach directory: patch.diff (against /repo HEAD), demo.py (fails with the change, passes without), meta.json.\n"
    "Written by independent sub-agents that saw only the property text; confirmed in a scratch worktree (tests pass, demo fails/passes).\n\n" + table + "\n")
design = (V / "DESIGN.md").read_text()
a, b = "<!-- SEEDED-TABLE-BEGIN -->", "<!-- SEEDED-TABLE-END -->"
if a in design:
    pre, rest = design.split(a, 1)
    _, post = rest.split(b, 1)
    (V / "DESIGN.md").write_text(pre + a + "\n" + table + "\n" + b + post)
print(table)
