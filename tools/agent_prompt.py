#!/usr/bin/env python3
"""Prints the prompt given to a mutant-writing sub-agent for one property (only the property text + a worktree path)."""
import json, sys
pid, wt = sys.argv[1], sys.argv[2]
for l in open('/verif/properties.jsonl'):
    d = json.loads(l)
    if d['id'] == pid:
        break
print(f"""You are helping evaluate a verification effort for the open-source Python project sanger-tol/agp-tpf-utils (CLI utilities for AGP/TPF genome assembly files, a PretextView-AGP remapper `pretext-to-asm`, and a streaming FASTA indexer/writer).

You have your OWN scratch git worktree of the project at: {wt}
Work ONLY inside that directory. Do NOT read, list or modify anything under /verif or /repo (they are off limits; your work must be independent of them). Do not commit anything. There is no network.

Run the project's test suite with:
    cd {wt} && PYTHONPATH={wt}/src /venv/bin/python -m pytest -q -p no:cacheprovider
(all 64 tests pass on the unmodified tree). Always set PYTHONPATH={wt}/src when running Python so that your worktree's code is the one imported (check with `python -c "import tola.assembly; print(tola.assembly.__file__)"`).

## The property

Title: {d['title']}

Statement: {d['statement']}

It is meant to hold: {d['quantifier']['text']}

Code areas involved: {', '.join(d['anchors']['files'])}

## Your task

Produce TWO different, independent source changes (call them mutant A and mutant B) to files under {wt}/src that each BREAK this property, while:
  1. the code still imports/compiles and the complete existing test suite (64 tests) still passes unchanged (you may not edit tests);
  2. the breakage is realistic - the kind of slip a maintainer could make in a refactor, an optimisation, a "simplification" or a bug fix (an off-by-one in a rarely taken branch, a dropped condition, a wrong variable, a cache that is not invalidated, a changed default, two sites that each look fine alone but disagree) - not sabotage such as `if name == "magic": ...`, random behaviour, or sleeping;
  3. it needs something SPECIFIC to manifest: an unusual input shape, a particular multi-step sequence of operations, a particular configuration, a boundary value, a fault at a particular point - not something ordinary use would expose at once. Prefer subtle over blatant. The two mutants should be in different functions / mechanisms if possible.

For each mutant also write a small demonstration program that shows the property being violated: it must exit with status 0 on the ORIGINAL code and with a non-zero status (e.g. an AssertionError) on the mutated code. It should only use the project's public behaviour (its Python API or its CLIs) and the standard library, and take `PYTHONPATH` from the environment (do not hard-code sys.path).

## Deliverables (all inside {wt}/mutants/)

  {wt}/mutants/A/patch.diff   - output of `git diff` for mutant A alone, relative to the clean worktree (so that `git apply patch.diff` on a clean tree reproduces it)
  {wt}/mutants/A/demo.py      - the demonstration for A
  {wt}/mutants/A/notes.md     - 5-10 lines: what was changed, why the tests still pass, exactly what input/sequence/configuration is needed to see the violation
  {wt}/mutants/B/...          - same for B

Procedure to follow for each mutant: start from a clean tree (`git -C {wt} checkout -- src`), make the change, run the full test suite (must be 64 passed), run demo.py (must fail), save `git diff -- src > mutants/X/patch.diff`, then `git -C {wt} checkout -- src`, run demo.py again (must pass). Verify that each patch applies to a clean tree with `git apply --check`.
Leave the worktree with src/ CLEAN (no modifications) at the end; only the mutants/ directory is added.

Your final message should be a short summary: for each mutant the file/function changed, a one-line description, and confirmation of the three runs (tests pass with mutant, demo fails with mutant, demo passes without).""")
