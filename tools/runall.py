#!/venv/bin/python
"""tools/runall.py [--tier quick] [--seeds 1,2,3] [--checks C01,C02] : run checks on the unchanged tree, evidence to a scratch dir."""
import argparse, json, os, subprocess, sys, tempfile, time, shutil
from pathlib import Path

VERIF = Path(__file__).resolve().parent.parent
ap = argparse.ArgumentParser()
ap.add_argument("--tier", default="quick")
ap.add_argument("--seeds", default="1")
ap.add_argument("--checks", default=",".join(f"C{n:02d}" for n in range(1, 21)))
ap.add_argument("--keep-evidence", action="store_true", help="write evidence to /verif/evidence (default: scratch dir)")
a = ap.parse_args()
bad = 0
for seed in a.seeds.split(","):
    for c in a.checks.split(","):
        evd = None
        env = dict(os.environ, VERIF_SEED=seed)
        if not a.keep_evidence:
            evd = tempfile.mkdtemp(prefix="atu-ev-", dir="/var/tmp")
            env["VERIF_EVIDENCE_DIR"] = evd
        t0 = time.time()
        r = subprocess.run([str(VERIF / "check"), c, "--tier", a.tier], cwd=VERIF, env=env, capture_output=True, text=True)
        last = [l for l in r.stdout.strip().splitlines() if not l.startswith("KNOWN-FINDING")][-1:] or [""]
        flag = "" if r.returncode == 0 else "   <<<<<< EXIT %d" % r.returncode
        print(f"seed={seed} {c} exit={r.returncode} {time.time()-t0:6.1f}s {last[0][:110]}{flag}", flush=True)
        if r.returncode:
            bad += 1
            print(r.stdout[-1500:], r.stderr[-1500:], flush=True)
        if evd and not r.returncode:
            shutil.rmtree(evd, ignore_errors=True)  # (kept on failure: it holds the replay file)
sys.exit(1 if bad else 0)
