#!/venv/bin/python
"""
Systematic first-order mutation screen of /repo's src/tola against the quick checks.

  tools/mutate.py list                       - count mutants per file / operator
  tools/mutate.py run [--jobs 4] [--nproc 4] [--scale 0.1] [--sample N] [--files a.py,b.py] [--out mutation/results.jsonl]
  tools/mutate.py recheck [--scale 1]        - survivors of an earlier screen again, with a larger budget
  tools/mutate.py summary                    - table for DESIGN.md

A mutant is one AST-level change of one site (operators below).  It is first run against the project's own
64 tests (a mutant the tests kill is not interesting: the brief asks for changes that pass them), then against
the checks that cover the mutated file, in a scratch git worktree under /var/tmp (VERIF_REPO points there;
nothing is ever applied to /repo).  The checks run with a REDUCED case budget (VERIF_BUDGET_SCALE) so that the
screen fits the time available; survivors can be re-run at full budget with `recheck`.

Results are a measurement of sensitivity, not evidence for a property, and no registered command depends on them.
"""
import argparse
import ast
import copy
import json
import multiprocessing
import os
import shutil
import subprocess
import sys
import time
from pathlib import Path

V = Path(__file__).resolve().parent.parent
REPO = Path("/repo")
SRC = "src/tola"
WORK = Path("/var/tmp/vf-mutw")

ALL = [f"C{i:02d}" for i in range(1, 21)]
REMAP = ["C01", "C02", "C08", "C07", "C09", "C10", "C11", "C06", "C17"]
CHECKS_FOR = {
    "assembly/build_assembly.py": REMAP,
    "assembly/build_utils.py": REMAP,
    "assembly/overlap_result.py": ["C18", "C12", "C02", "C01", "C08"],
    "assembly/indexed_assembly.py": ["C12", "C18", "C19", "C01", "C02"],
    "assembly/assembly.py": ["C20", "C19", "C11", "C05", "C10", "C01", "C17"],
    "assembly/scaffold.py": ["C05", "C14", "C20", "C01", "C07", "C11", "C06", "C08"],
    "assembly/fragment.py": ["C14", "C05", "C12", "C19", "C01", "C02", "C11", "C06"],
    "assembly/gap.py": ["C05", "C06", "C07", "C14", "C01"],
    "assembly/format.py": ["C05", "C06", "C17", "C03"],
    "assembly/parser.py": ["C05", "C17", "C19", "C01", "C04"],
    "assembly/assembly_stats.py": ["C11", "C17", "C09"],
    "assembly/terminal_table.py": ["C01", "C02", "C17"],
    "assembly/scripts/pretext_to_asm.py": ["C16", "C17", "C09", "C10", "C03", "C06", "C11", "C07", "C08", "C01"],
    "assembly/scripts/asm_format.py": ["C05", "C16", "C19", "C17", "C06"],
    "assembly/scripts/find_overlaps.py": ["C12"],
    "fasta/index.py": ["C04", "C13", "C15", "C03", "C06", "C14", "C17"],
    "fasta/stream.py": ["C03", "C14", "C13", "C06"],
    "fasta/simple.py": ["C14", "C03", "C04"],
}

CMP_SWAP = {ast.Lt: ast.LtE, ast.LtE: ast.Lt, ast.Gt: ast.GtE, ast.GtE: ast.Gt, ast.Eq: ast.NotEq, ast.NotEq: ast.Eq,
            ast.Is: ast.IsNot, ast.IsNot: ast.Is, ast.In: ast.NotIn, ast.NotIn: ast.In}
BIN_SWAP = {ast.Add: ast.Sub, ast.Sub: ast.Add, ast.Mult: ast.FloorDiv, ast.FloorDiv: ast.Mult, ast.Mod: ast.FloorDiv}
NAME_SWAP = {"start": "end", "end": "start", "min": "max", "max": "min", "first": "last", "last": "first",
             "floor": "ceil", "ceil": "floor", "append": "insert0", "any": "all", "all": "any"}


class Sites(ast.NodeVisitor):
    """Enumerates mutation sites; with target=k applies the k-th mutation in place."""

    def __init__(self, target=None):
        self.n = 0
        self.target = target
        self.applied = None
        self.in_logging = 0

    def hit(self, node, op, desc):
        k = self.n
        self.n += 1
        if self.target is None:
            self.found.append((k, getattr(node, "lineno", 0), op, desc))
            return False
        if k == self.target:
            self.applied = (getattr(node, "lineno", 0), op, desc)
            return True
        return False

    found: list

    def run(self, tree):
        self.found = []
        self.visit(tree)
        return self.found

    # -- skip log / message text
    def visit_Call(self, node):
        f = node.func
        is_log = isinstance(f, ast.Attribute) and isinstance(f.value, ast.Name) and f.value.id in ("logging", "log", "logger")
        if is_log:
            return
        if isinstance(f, ast.Name) and f.id in ("min", "max", "any", "all"):
            if self.hit(node, "name", f"{f.id} -> {NAME_SWAP[f.id]}"):
                f.id = NAME_SWAP[f.id]
        self.generic_visit(node)

    def visit_JoinedStr(self, node):
        return  # f-strings: messages

    def visit_Compare(self, node):
        for i, op in enumerate(node.ops):
            new = CMP_SWAP.get(type(op))
            if new and self.hit(node, "cmp", f"{type(op).__name__} -> {new.__name__}"):
                node.ops[i] = new()
        self.generic_visit(node)

    def visit_BinOp(self, node):
        new = BIN_SWAP.get(type(node.op))
        if new and not (isinstance(node.op, ast.Mod) and isinstance(node.left, ast.Constant) and isinstance(node.left.value, str)):
            if self.hit(node, "binop", f"{type(node.op).__name__} -> {new.__name__}"):
                node.op = new()
        self.generic_visit(node)

    def visit_AugAssign(self, node):
        new = BIN_SWAP.get(type(node.op))
        if new and self.hit(node, "augop", f"{type(node.op).__name__}= -> {new.__name__}="):
            node.op = new()
        self.stmt(node)
        self.generic_visit(node)

    def visit_BoolOp(self, node):
        new = ast.Or if isinstance(node.op, ast.And) else ast.And
        if self.hit(node, "boolop", f"{type(node.op).__name__} -> {new.__name__}"):
            node.op = new()
        self.generic_visit(node)

    def visit_UnaryOp(self, node):
        if isinstance(node.op, ast.Not) and self.hit(node, "not", "not x -> x"):
            node.operand = ast.UnaryOp(ast.Not(), node.operand)  # double negation: truthiness of x
        self.generic_visit(node)

    def visit_Constant(self, node):
        v = node.value
        if isinstance(v, bool):
            if self.hit(node, "const", f"{v} -> {not v}"):
                node.value = not v
        elif isinstance(v, int):
            if self.hit(node, "const", f"{v} -> {v + 1}"):
                node.value = v + 1
            if self.hit(node, "const", f"{v} -> {v - 1}"):
                node.value = v - 1

    def visit_Attribute(self, node):
        if node.attr in ("start", "end") and self.hit(node, "attr", f".{node.attr} -> .{NAME_SWAP[node.attr]}"):
            node.attr = NAME_SWAP[node.attr]
        self.generic_visit(node)

    def negate(self, node):
        if self.hit(node, "negate", f"{type(node).__name__.lower()} condition negated"):
            node.test = ast.UnaryOp(ast.Not(), node.test)

    def visit_If(self, node):
        t = node.test
        main = isinstance(t, ast.Compare) and isinstance(t.left, ast.Name) and t.left.id == "__name__"
        if main:
            return
        self.negate(node)
        self.body(node)

    def visit_While(self, node):
        self.negate(node)
        self.body(node)

    def visit_IfExp(self, node):
        self.negate(node)
        self.generic_visit(node)

    def body(self, node):
        self.generic_visit(node)

    def stmt(self, node):
        """statement deletion (-> pass)"""
        if self.hit(node, "delete", f"{type(node).__name__.lower()} statement removed"):
            node.__class__ = ast.Pass
            for f in list(node.__dict__):
                if f not in ("lineno", "col_offset", "end_lineno", "end_col_offset"):
                    delattr(node, f)
            return True
        return False

    def visit_Expr(self, node):
        if isinstance(node.value, ast.Constant):
            return  # docstring
        c = node.value
        if isinstance(c, ast.Call) and isinstance(c.func, ast.Attribute) and isinstance(c.func.value, ast.Name) and c.func.value.id in ("logging", "log", "logger"):
            return
        if not self.stmt(node):
            self.generic_visit(node)

    def visit_Assign(self, node):
        if not self.stmt(node):
            self.generic_visit(node)

    def visit_Return(self, node):
        if node.value is not None and not (isinstance(node.value, ast.Constant) and node.value.value is None):
            if self.hit(node, "return", "return value -> None"):
                node.value = ast.Constant(None)
                return
        self.generic_visit(node)

    def visit_Raise(self, node):
        self.stmt(node)

    def visit_Continue(self, node):
        if self.hit(node, "loop", "continue -> break"):
            node.__class__ = ast.Break

    def visit_Break(self, node):
        if self.hit(node, "loop", "break -> continue"):
            node.__class__ = ast.Continue

    def visit_FunctionDef(self, node):
        # decorators (click options) and defaults are visited like everything else
        self.generic_visit(node)


def enumerate_file(rel):
    src = (REPO / SRC / rel).read_text()
    tree = ast.parse(src)
    return Sites().run(tree)


def mutated_source(rel, k):
    src = (REPO / SRC / rel).read_text()
    tree = ast.parse(src)
    s = Sites(target=k)
    s.found = []
    s.visit(tree)
    ast.fix_missing_locations(tree)
    try:
        out = ast.unparse(tree)
        compile(out, rel, "exec")
    except Exception:  # noqa: BLE001
        return None, s.applied
    return out, s.applied


def all_mutants(files=None):
    out = []
    for rel in CHECKS_FOR:
        if files and rel not in files:
            continue
        for k, line, op, desc in enumerate_file(rel):
            out.append({"file": rel, "k": k, "line": line, "op": op, "desc": desc})
    return out


def sh(cmd, env=None, cwd=None, timeout=None):
    try:
        p = subprocess.run(cmd, env=env, cwd=cwd, capture_output=True, text=True, timeout=timeout)
        return p.returncode, p.stdout + p.stderr
    except subprocess.TimeoutExpired as e:
        return 124, (e.stdout or b"").decode("utf-8", "replace") if isinstance(e.stdout, bytes) else (e.stdout or "")


def worker_dir(slot):
    d = WORK / f"w{slot}"
    if not (d / "src").exists():
        WORK.mkdir(parents=True, exist_ok=True)
        sh(["git", "-C", str(REPO), "worktree", "add", "--detach", str(d), "HEAD"])
    return d


def run_one(job):
    m, slot, nproc, scale, checks_override, tier = job
    d = worker_dir(slot)
    rel = m["file"]
    target = d / SRC / rel
    sh(["git", "-C", str(d), "checkout", "--", "src"])
    code, applied = mutated_source(rel, m["k"])
    res = dict(m)
    if code is None:
        res["status"] = "invalid"
        return res
    original = (REPO / SRC / rel).read_text()
    try:
        if ast.dump(ast.parse(code)) == ast.dump(ast.parse(original)):
            res["status"] = "noop"
            return res
        target.write_text(code + "\n")
        for pc in d.rglob("__pycache__"):
            shutil.rmtree(pc, ignore_errors=True)
        env = dict(os.environ)
        env.update({"PYTHONPATH": str(d / "src"), "PYTHONDONTWRITEBYTECODE": "1", "PYTHONHASHSEED": "0"})
        t0 = time.time()
        rc, out = sh(["/venv/bin/python", "-m", "pytest", "-q", "-x", "-p", "no:cacheprovider"], env=env, cwd=d, timeout=180)
        res["tests_s"] = round(time.time() - t0, 1)
        if rc != 0:
            res["status"] = "killed_by_tests" if rc != 124 else "tests_timeout"
            return res
        env = dict(os.environ)
        ev = WORK / f"ev{slot}"
        ev.mkdir(exist_ok=True)
        env.update({"VERIF_REPO": str(d), "VERIF_NPROC": str(nproc), "VERIF_BUDGET_SCALE": str(scale), "VERIF_EVIDENCE_DIR": str(ev),
                    "PYTHONDONTWRITEBYTECODE": "1", "VERIF_SHRINK_SECONDS": "1", "VERIF_WALL_CAP": "600"})
        env.pop("PYTHONPATH", None)
        res["checks"] = {}
        res["status"] = "survived"
        for cid in checks_override or CHECKS_FOR[rel]:
            t0 = time.time()
            rc, out = sh([str(V / "check"), cid, "--tier", tier], env=env, cwd=V, timeout=1500)
            wall = round(time.time() - t0, 1)
            first = next((l for l in out.splitlines() if l.startswith("VIOLATION")), "")
            res["checks"][cid] = {"exit": rc, "wall_s": wall}
            if rc == 1 and first:
                res["status"] = "caught"
                res["caught_by"] = cid
                msg = next((l for l in out.splitlines() if "violation in" in l or l.startswith("  ")), "")
                res["message"] = msg[:300]
                break
            if rc not in (0, 1):
                res["checks"][cid]["tail"] = out[-400:]
                if rc == 124:
                    res["status"] = "caught"
                    res["caught_by"] = cid + " (timeout: the mutant hangs or the check hit its wall cap)"
                    break
        return res
    finally:
        sh(["git", "-C", str(d), "checkout", "--", "src"])


def pool_jobs(mutants, a, checks_override=None):
    out_path = V / a.out
    out_path.parent.mkdir(exist_ok=True)
    slots = multiprocessing.Manager().Queue()
    for i in range(a.jobs):
        slots.put(i)
    done = 0
    t0 = time.time()
    with multiprocessing.Pool(a.jobs, initializer=_init, initargs=(slots,)) as pool, out_path.open("a") as fh:
        for res in pool.imap_unordered(_run, [(m, a.nproc, a.scale, checks_override, a.tier) for m in mutants]):
            fh.write(json.dumps(res) + "\n")
            fh.flush()
            done += 1
            if done % 10 == 0 or res.get("status") == "survived":
                print(f"[{done}/{len(mutants)} {time.time() - t0:.0f}s] {res['file']}:{res['line']} {res['op']} {res['desc']} -> {res['status']} {res.get('caught_by', '')}", flush=True)


_SLOT = None


def _init(q):
    global _SLOT
    _SLOT = q.get()


def _run(args):
    m, nproc, scale, override, tier = args
    try:
        return run_one((m, _SLOT, nproc, scale, override, tier))
    except Exception as e:  # noqa: BLE001
        r = dict(m)
        r["status"] = "tool_error"
        r["message"] = repr(e)[:300]
        return r


def load_results(path):
    res = {}
    p = V / path
    if p.exists():
        for l in p.read_text().splitlines():
            r = json.loads(l)
            res[(r["file"], r["k"])] = r
    return res


def cleanup():
    for d in sorted(WORK.glob("w*")):
        sh(["git", "-C", str(REPO), "worktree", "remove", "--force", str(d)])
    sh(["git", "-C", str(REPO), "worktree", "prune"])
    shutil.rmtree(WORK, ignore_errors=True)


def main():
    ap = argparse.ArgumentParser()
    ap.add_argument("cmd", choices=["list", "run", "recheck", "summary", "show"])
    ap.add_argument("--jobs", type=int, default=4)
    ap.add_argument("--nproc", type=int, default=4)
    ap.add_argument("--scale", type=float, default=0.1)
    ap.add_argument("--tier", default="quick")
    ap.add_argument("--sample", type=int, default=0)
    ap.add_argument("--files", default="")
    ap.add_argument("--out", default="mutation/results.jsonl")
    ap.add_argument("--all-checks", action="store_true")
    a = ap.parse_args()
    files = [f for f in a.files.split(",") if f]
    if a.cmd == "list":
        ms = all_mutants(files)
        by = {}
        for m in ms:
            by.setdefault(m["file"], {}).setdefault(m["op"], 0)
            by[m["file"]][m["op"]] += 1
        for f, ops in by.items():
            print(f"{f:42s} {sum(ops.values()):5d}  {ops}")
        print("total", len(ms))
    elif a.cmd == "show":
        rel, k = files[0], a.sample
        code, applied = mutated_source(rel, k)
        print(applied)
        import difflib

        print("".join(difflib.unified_diff(ast.unparse(ast.parse((REPO / SRC / rel).read_text())).splitlines(1), (code or "").splitlines(1), n=2)))
    elif a.cmd == "run":
        ms = all_mutants(files)
        have = load_results(a.out)
        ms = [m for m in ms if (m["file"], m["k"]) not in have]
        if a.sample:
            import random

            random.Random(12345).shuffle(ms)
            ms = ms[: a.sample]
        print(f"{len(ms)} mutants to run ({len(have)} done before)", flush=True)
        try:
            pool_jobs(ms, a)
        finally:
            cleanup()
    elif a.cmd == "recheck":
        have = load_results(a.out)
        surv = [{k: r[k] for k in ("file", "k", "line", "op", "desc")} for r in have.values() if r["status"] == "survived" and (not files or r["file"] in files)]
        print(f"{len(surv)} survivors to re-run at scale {a.scale}", flush=True)
        try:
            pool_jobs(surv, a, checks_override=ALL if a.all_checks else None)
        finally:
            cleanup()
    elif a.cmd == "summary":
        have = load_results(a.out)
        by = {}
        for r in have.values():
            by.setdefault(r["file"], {}).setdefault(r["status"], 0)
            by[r["file"]][r["status"]] += 1
        print("| file | mutants | killed by the 64 tests | pass the tests | of these caught by checks | survived |")
        print("|---|---|---|---|---|---|")
        T = [0, 0, 0, 0, 0]
        for f in CHECKS_FOR:
            s = by.get(f)
            if not s:
                continue
            n = sum(s.values()) - s.get("noop", 0) - s.get("invalid", 0)
            kt = s.get("killed_by_tests", 0) + s.get("tests_timeout", 0)
            c, sv = s.get("caught", 0), s.get("survived", 0)
            print(f"| {f} | {n} | {kt} | {c + sv} | {c} | {sv} |")
            for i, x in enumerate((n, kt, c + sv, c, sv)):
                T[i] += x
        print(f"| total | {T[0]} | {T[1]} | {T[2]} | {T[3]} | {T[4]} |")


if __name__ == "__main__":
    main()
