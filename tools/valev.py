#!/usr/bin/env python3
"""Validate evidence/*.json against the evidence schema (run with python3-vt)."""
import json, sys, glob, jsonschema
schema = json.load(open("/root/.vp/EVIDENCE.schema.json"))
bad = 0
for f in sorted(glob.glob("/verif/evidence/*.json")):
    try:
        jsonschema.validate(json.load(open(f)), schema)
    except Exception as e:
        bad += 1
        print("INVALID", f, str(e)[:300])
print("validated", len(glob.glob('/verif/evidence/*.json')), "files,", bad, "bad")
sys.exit(1 if bad else 0)
