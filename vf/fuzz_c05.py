#!/venv/bin/python
"""
Coverage-guided fuzz target for C05 (Atheris / libFuzzer).  Invoked by vf/props/c05.py:

    fuzz_c05.py <stats.json> <libFuzzer args...>

Input bytes: first byte selects the format (even = AGP, odd = TPF), the rest is the text (latin-1).
Oracle inside the target: (a) parsing raises, or yields exactly one row per data line, each in the
scaffold its line names (no line skipped, merged or re-homed); (b) for text that parses,
parse(format(parse(text))) == parse(text) and format is a fixed point after one round.
"""
import json
import os
import sys
from pathlib import Path

HERE = Path(__file__).resolve().parent.parent
sys.path.insert(0, str(HERE))
sys.path.append(str(HERE / ".deps"))
sys.path.append("/verif/.deps")  # snapshots of /verif (vp run) do not carry the untracked .deps directory
sys.path.insert(0, os.path.join(os.environ.get("VERIF_REPO", "/repo"), "src"))

import atheris  # noqa: E402

with atheris.instrument_imports(include=["tola"]):
    import tola.assembly.format  # noqa: F401
    import tola.assembly.parser  # noqa: F401

from vf.props import c05  # noqa: E402,F401
from vf.fuzz_oracle import check_text  # noqa: E402
from vf.runner import Violation  # noqa: E402

STATS = {"execs": 0, "parsed": 0, "parsed_multi_line": 0}
STATS_FILE = None


class Rec:
    def note(self, *a, **k):
        pass

    def count(self, *a, **k):
        pass


def _unused_check_text(which, text):
    """shared with the replay body in c05.py"""
    case = {"format": which, "text": text, "ops": ["fuzz"]}
    c05.body_lines(case, Rec())
    try:
        asm = c05.parse(text, which)
    except Exception:  # noqa: BLE001
        return False
    once = c05.fmt(asm, which)
    try:
        back = c05.parse(once, which)
    except Exception as e:  # noqa: BLE001
        raise Violation(f"{which}: text written by the formatter does not parse: {type(e).__name__}: {e}") from e
    if c05.plain_of(back) != c05.plain_of(asm):
        raise Violation(f"{which}: parse(format(parse(text))) differs from parse(text): {c05.diff(c05.plain_of(asm), c05.plain_of(back))}")
    if c05.fmt(back, which) != once:
        raise Violation(f"{which}: formatting is not a fixed point after one round")
    return True


def TestOneInput(data):
    if not data:
        return
    which = "tpf" if data[0] & 1 else "agp"
    text = data[1:].decode("latin-1")
    STATS["execs"] += 1
    if check_text(which, text):
        STATS["parsed"] += 1
        if text.count("\n") > 1:
            STATS["parsed_multi_line"] += 1
    if STATS["execs"] % 2000 == 0 and STATS_FILE:
        Path(STATS_FILE).write_text(json.dumps(STATS))


def main():
    global STATS_FILE
    STATS_FILE = sys.argv[1]
    argv = [sys.argv[0], *sys.argv[2:]]
    atheris.Setup(argv, TestOneInput)
    atheris.Fuzz()


if __name__ == "__main__":
    main()
