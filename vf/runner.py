"""
Runner: sharding, seeding, VIOLATION / KNOWN-FINDING lines, replay, evidence.

A property module (vf/props/cNN.py) exposes

    ID      = "C12"
    LEVEL   = "exploration" | "fault_enumeration"
    RULE    = "how cases are generated and what makes one non-trivial"
    ASSUMPTIONS = [...]
    SUBS    = [Sub(...), ...]
    KNOWN_PREDICATES = {"name": fn(sub_name, case, message) -> bool}   (optional)

Every sub-check owns a `body(case, rec)` that rebuilds objects from the *plain*
(JSON-able) case, runs the code under test and the oracle, calls
`rec.note(...)` to classify the case and raises `Violation` if the oracle
fails.  Anything else escaping a body is a harness error (exit 2), never a
VIOLATION.
"""

from __future__ import annotations

import hashlib
import json
import multiprocessing as mp
import os
import sys
import time
import traceback
import zlib
from collections import Counter
from pathlib import Path

VERIF_DIR = Path(__file__).resolve().parent.parent
NPROC = int(os.environ.get("VERIF_NPROC", "16"))


def evidence_dir() -> Path:
    return Path(os.environ.get("VERIF_EVIDENCE_DIR", str(VERIF_DIR / "evidence")))


def repo_dir() -> Path:
    return Path(os.environ.get("VERIF_REPO", "/repo"))


def ensure_repo_on_path():
    """Code under test is always the working tree of VERIF_REPO (default /repo)."""
    src = str(repo_dir() / "src")
    if sys.path[0] != src:
        sys.path.insert(0, src)
    import tola  # noqa: F401

    paths = [str(p) for p in getattr(tola, "__path__", [])]
    if not any(p.startswith(src) for p in paths):
        raise HarnessError(f"tola imported from {paths}, expected under {src}")


class Violation(Exception):
    """The oracle of a property failed on a case."""


class HarnessError(Exception):
    """The machinery itself is broken; exit 2, never a VIOLATION."""


def must(fn, *args, what="call", **kwargs):
    """Run code under test where the property demands that it does not fail."""
    try:
        return fn(*args, **kwargs)
    except Violation:
        raise
    except Exception as e:  # noqa: BLE001
        tb = traceback.extract_tb(e.__traceback__)
        where = f"{Path(tb[-1].filename).name}:{tb[-1].lineno}" if tb else "?"
        raise Violation(f"{what} raised {type(e).__name__}: {str(e)[:200]} at {where}") from e


def jsonable(x):
    if isinstance(x, (list, tuple)):
        return [jsonable(i) for i in x]
    if isinstance(x, dict):
        return {str(k): jsonable(v) for k, v in x.items()}
    if isinstance(x, bytes):
        return {"__bytes__": x.decode("latin-1")}
    if isinstance(x, (set, frozenset)):
        return sorted(jsonable(i) for i in x)
    if isinstance(x, float) or isinstance(x, int) or isinstance(x, str) or x is None:
        return x
    return repr(x)


def unjson(x):
    if isinstance(x, list):
        return [unjson(i) for i in x]
    if isinstance(x, dict):
        if set(x) == {"__bytes__"}:
            return x["__bytes__"].encode("latin-1")
        return {k: unjson(v) for k, v in x.items()}
    return x


def digest(plain) -> int:
    s = json.dumps(jsonable(plain), sort_keys=True, separators=(",", ":"))
    return int.from_bytes(hashlib.sha1(s.encode()).digest()[:8], "big")


class Recorder:
    """Per worker: counts, classes, non-trivial digests, samples."""

    MAX_SAMPLE_JSON = 3000

    def __init__(self, sub_name):
        self.sub = sub_name
        self.evaluations = 0
        self.classes = Counter()
        self.nontrivial = set()
        self.samples = {}  # label -> (size, plain)
        self.known = Counter()
        self.failure = None  # (plain, message)
        self.shrinking = False
        self.extra = Counter()

    def note(self, plain, nontrivial: bool, classes=()):
        """Called by a body once per executed case (before or after the oracle)."""
        if self.shrinking:
            return
        self.evaluations += 1
        for c in classes:
            self.classes[c] += 1
        if nontrivial:
            d = digest(plain)
            if d not in self.nontrivial:
                self.nontrivial.add(d)
                self._sample(plain)
        else:
            self.classes["trivial"] += 1

    def count(self, key, n=1):
        if not self.shrinking:
            self.extra[key] += n

    def _sample(self, plain):
        j = json.dumps(jsonable(plain))
        size = len(j)
        if size > self.MAX_SAMPLE_JSON:
            return
        s = self.samples
        if "first" not in s:
            s["first"] = (size, j)
        if "smallest" not in s or size < s["smallest"][0]:
            s["smallest"] = (size, j)
        if "largest" not in s or size > s["largest"][0]:
            s["largest"] = (size, j)

    def result(self):
        return {
            "sub": self.sub,
            "evaluations": self.evaluations,
            "classes": dict(self.classes),
            "extra": dict(self.extra),
            "nontrivial": list(self.nontrivial),
            "samples": {k: v[1] for k, v in self.samples.items()},
            "known": dict(self.known),
            "failure": self.failure,
        }


class Sub:
    """
    One sub-check of a property.

    kind "hyp":    strategy() -> Hypothesis strategy of plain cases; body(case, rec)
    kind "enum":   cases(tier, shard, nshards) -> iterator of plain cases; body(case, rec)
    kind "custom": run(rec, tier, seed, shard, nshards, handle) -> None, where
                   handle(case, fn) runs fn() under the failure / known-finding
                   protocol and returns True if the case failed.
    budget: {"quick": n, "thorough": n} total cases over all workers (hyp) or
            free-form for the others.
    """

    def __init__(self, name, kind="hyp", strategy=None, body=None, cases=None, run=None,
                 budget=None, shrink=True, workers=None, exhaustive=False, desc=""):
        self.name = name
        self.kind = kind
        self.strategy = strategy
        self.body = body
        self.cases = cases
        self.run = run
        self.budget = budget or {"quick": 1000, "thorough": 10000}
        self.shrink = shrink
        self.workers = workers  # None -> NPROC
        self.exhaustive = exhaustive
        self.desc = desc


# --------------------------------------------------------------------------
# known findings


def load_known(prop_id):
    p = VERIF_DIR / "known_findings.json"
    if not p.exists():
        return []
    data = json.loads(p.read_text())
    return [f for f in data.get("findings", []) if f.get("property") == prop_id]


def match_known(mod, known, sub_name, case, message):
    preds = getattr(mod, "KNOWN_PREDICATES", {})
    for kf in known:
        pred = preds.get(kf.get("predicate"))
        if pred is None:
            continue
        if kf.get("sub") not in (None, sub_name):
            continue
        try:
            if pred(sub_name, case, message):
                return kf
        except Exception:  # noqa: BLE001
            continue
    return None


# --------------------------------------------------------------------------
# worker


def derive_seed(base, sub_name, shard):
    return (base * 1000003 + shard * 7919 + zlib.crc32(sub_name.encode())) & 0x7FFFFFFF


def _worker(args):
    mod_name, sub_name, tier, base_seed, shard, nshards = args
    import importlib
    import logging

    try:
        ensure_repo_on_path()
        logging.disable(logging.CRITICAL)
        mod = importlib.import_module(mod_name)
        sub = next(s for s in mod.SUBS if s.name == sub_name)
        known = load_known(mod.ID)
        rec = Recorder(sub_name)
        seed_value = derive_seed(base_seed, sub_name, shard)

        def handle(case, fn):
            """Run fn() for `case`; returns True when it violated (and was not known)."""
            try:
                fn()
            except Violation as v:
                kf = match_known(mod, known, sub_name, case, str(v))
                if kf is not None:
                    if not rec.shrinking:
                        rec.known[kf["id"]] += 1
                    return False
                rec.failure = (jsonable(case), str(v))
                return True
            return False

        if sub.kind == "hyp":
            _run_hyp(sub, tier, seed_value, nshards, rec, handle)
        elif sub.kind == "enum":
            for case in sub.cases(tier, shard, nshards):
                if handle(case, lambda c=case: sub.body(c, rec)):
                    break
        elif sub.kind == "custom":
            sub.run(rec, tier, seed_value, shard, nshards, handle)
        else:
            raise HarnessError(f"unknown kind {sub.kind}")
        out = rec.result()
        out["seed"] = seed_value
        return out
    except BaseException as e:  # noqa: BLE001
        return {
            "sub": sub_name,
            "harness_error": f"{type(e).__name__}: {e}\n{traceback.format_exc()}",
        }
    finally:
        _cleanup_scratch()


def _cleanup_scratch():
    mod = sys.modules.get("vf.fa")
    if mod is not None:
        try:
            mod.cleanup()
        except Exception:  # noqa: BLE001
            pass


def _run_hyp(sub, tier, seed_value, nshards, rec, handle):
    from hypothesis import HealthCheck, Phase, Verbosity, given, seed, settings

    # Bound the shrink phase (Hypothesis's own cap is 300 s); a shorter cap only makes the
    # reported case less minimal, it never turns a pass into a failure or vice versa.
    import hypothesis.internal.conjecture.engine as _engine

    _engine.MAX_SHRINKING_SECONDS = int(os.environ.get("VERIF_SHRINK_SECONDS", "25" if tier == "quick" else "120"))

    # VERIF_BUDGET_SCALE is for tools/mutate.py's screening runs only (no registered command sets it)
    total = max(nshards, int(sub.budget[tier] * float(os.environ.get("VERIF_BUDGET_SCALE", "1"))))
    n = max(1, -(-total // nshards))
    phases = [Phase.generate] + ([Phase.shrink] if sub.shrink else [])

    class _Fail(Exception):
        pass

    state = {"post_fail": 0}

    def test(case):
        if rec.failure is not None:
            rec.shrinking = True
            state["post_fail"] += 1
        failed = handle(case, lambda: sub.body(case, rec))
        if failed:
            raise _Fail()

    t = given(sub.strategy())(test)
    t = settings(
        max_examples=n,
        database=None,
        deadline=None,
        derandomize=False,
        report_multiple_bugs=False,
        print_blob=False,
        verbosity=Verbosity.quiet,
        phases=phases,
        suppress_health_check=list(HealthCheck),
    )(t)
    t = seed(seed_value)(t)
    from hypothesis.errors import Flaky

    try:
        t()
    except _Fail:
        pass  # rec.failure holds the last (minimal) failing case
    except Flaky:
        # The oracle failed on a case, but the same case passed when Hypothesis ran it again: the outcome depends
        # on what ran before in this process (state carried between runs of the code under test). The violation
        # was observed on real executions, so it is reported; the replay file may not reproduce it in isolation.
        if rec.failure is None:
            raise
        case, msg = rec.failure
        rec.failure = (case, msg + "  [not reproducible in isolation: the outcome depended on earlier cases run in the same process]")
    finally:
        rec.shrinking = False


# --------------------------------------------------------------------------
# replay


def replay_file(mod, path, known=None):
    """Returns None if the case passes, else the violation message."""
    data = json.loads(Path(path).read_text())
    sub = next((s for s in mod.SUBS if s.name == data["sub"]), None)
    if sub is None or sub.body is None:
        raise HarnessError(f"replay {path}: no sub-check '{data['sub']}' with a body")
    case = unjson(data["case"])
    rec = Recorder(sub.name)
    try:
        sub.body(case, rec)
    except Violation as v:
        if known is not None:
            kf = match_known(mod, known, sub.name, case, str(v))
            if kf is not None:
                return ("known", kf)
        return ("violation", str(v))
    return None


# --------------------------------------------------------------------------
# main driver


def write_evidence(mod, tier, seed_value, coverage, wall, violations, out_dir=None):
    ev = {
        "property_id": mod.ID,
        "tier": tier,
        "seed": seed_value,
        "level": mod.LEVEL,
        "coverage": coverage,
        "assumptions": list(getattr(mod, "ASSUMPTIONS", [])),
        "wall_s": round(wall, 2),
        "violations": violations,
    }
    d = Path(out_dir) if out_dir else evidence_dir()
    d.mkdir(parents=True, exist_ok=True)
    (d / f"{mod.ID}.json").write_text(json.dumps(ev, indent=1) + "\n")


def _optimized_rerun(mod, tier, only):
    """
    The generated sub-checks once more, at a twentieth of their budget, in a child interpreter running in optimised
    mode (PYTHONOPTIMIZE=1, i.e. `python -O`: assert statements - and anything done inside them - are compiled away).
    The interpreter mode is a configuration of every property's quantifier that costs seconds to cover. A child that
    cannot be run or ends inconclusively is recorded in the evidence and never fails the check by itself.
    """
    import shutil
    import subprocess
    import tempfile

    evd = tempfile.mkdtemp(prefix="vf-pyO-", dir=os.environ.get("VERIF_SCRATCH", "/var/tmp"))
    scale = float(os.environ.get("VERIF_BUDGET_SCALE", "1")) * 0.05
    env = dict(os.environ, VERIF_INNER="1", PYTHONOPTIMIZE="1", VERIF_BUDGET_SCALE=str(scale), VERIF_EVIDENCE_DIR=evd,
               VERIF_TIER=tier, PYTHONHASHSEED="0")
    cmd = [sys.executable, str(VERIF_DIR / "check"), mod.ID, "--tier", tier]
    if only:
        cmd += ["--only", ",".join(sorted(only))]
    t0 = time.time()
    out = {"mode": "PYTHONOPTIMIZE=1", "budget_scale": scale}
    try:
        r = subprocess.run(cmd, env=env, capture_output=True, text=True, timeout=float(os.environ.get("VERIF_WALL_CAP", "1500" if tier == "quick" else "14400")))
    except Exception as e:  # noqa: BLE001
        out["status"] = f"not run: {type(e).__name__}"
        shutil.rmtree(evd, ignore_errors=True)
        return out
    out["wall_s"] = round(time.time() - t0, 1)
    out["exit"] = r.returncode
    try:
        ev = json.loads((Path(evd) / f"{mod.ID}.json").read_text())
        out["evaluations"] = ev["coverage"]["evaluations"]
        out["distinct_nontrivial"] = ev["coverage"]["distinct_nontrivial"]
        out["sub_checks"] = {k: v["evaluations"] for k, v in ev["coverage"].get("sub_checks", {}).items()}
    except Exception:  # noqa: BLE001
        pass
    if r.returncode == 1:
        msgs = {}
        for line in r.stdout.splitlines():
            if line.startswith("violation in "):
                name, _, msg = line[len("violation in "):].partition(": ")
                msgs[name] = msg
        vio = []
        for f in sorted((Path(evd) / "replays").glob("*.json")) if (Path(evd) / "replays").is_dir() else []:
            try:
                name = json.loads(f.read_text()).get("sub", "?")
            except Exception:  # noqa: BLE001
                name = "?"
            keep = Path(tempfile.mkdtemp(prefix="vf-pyO-replay-", dir=os.environ.get("VERIF_SCRATCH", "/var/tmp"))) / f.name
            shutil.copy(f, keep)
            vio.append((name, msgs.get(name, "violation in optimised mode"), str(keep)))
        if vio:
            out["violations"] = vio
            out["status"] = "violation"
        else:
            out["status"] = "inconclusive (exit 1 without a replay file)"
    elif r.returncode == 0:
        out["status"] = "held"
    else:
        out["status"] = "inconclusive"
        out["tail"] = (r.stdout + r.stderr)[-300:]
    shutil.rmtree(evd, ignore_errors=True)
    return out


def run_property(mod, tier, only=None):
    t0 = time.time()
    base_seed = int(os.environ.get("VERIF_SEED", "1"))
    known = load_known(mod.ID)
    violations = []  # (sub, replay path)
    known_hits = Counter()
    harness_errors = []

    import logging

    logging.disable(logging.CRITICAL)

    # 1. committed replays (seconds-long regression tier)
    rdir = VERIF_DIR / "replays" / mod.ID
    replayed = 0
    inner = bool(os.environ.get("VERIF_INNER"))
    if rdir.is_dir() and not inner:
        for f in sorted(rdir.glob("*.json")):
            if only and json.loads(f.read_text()).get("sub") not in only:
                continue
            res = replay_file(mod, f, known)
            replayed += 1
            if res is None:
                continue
            if res[0] == "known":
                known_hits[res[1]["id"]] += 1
            else:
                print(f"replay {f.name}: {res[1]}")
                violations.append(("replay:" + f.name, str(f)))

    # 2. generated search
    subs = [s for s in mod.SUBS if not only or s.name in only]
    if inner:
        subs = [s for s in subs if s.kind == "hyp"]
    tasks = []
    for s in subs:
        if s.budget.get(tier, 1) == 0:
            continue
        n = s.workers or NPROC
        for shard in range(n):
            tasks.append((mod.__name__, s.name, tier, base_seed, shard, n))
    results = []
    if tasks:
        ctx = mp.get_context("fork")
        with ctx.Pool(min(NPROC, len(tasks))) as pool:
            limit = float(os.environ.get("VERIF_WALL_CAP", "1500" if tier == "quick" else "14400"))
            async_res = pool.map_async(_worker, tasks, chunksize=1)
            try:
                results = async_res.get(timeout=limit)
            except mp.TimeoutError:
                pool.terminate()
                print(f"INCONCLUSIVE property={mod.ID}: wall-clock cap {limit}s hit")
                return 2

    _cleanup_scratch()
    optimized = None
    if not inner and getattr(mod, "OPTIMIZED_RERUN", True) and any(s.kind == "hyp" for s in subs) and not os.environ.get("VERIF_NO_OPTIMIZED"):
        optimized = _optimized_rerun(mod, tier, only)
    per_sub = {}
    for r in results:
        if "harness_error" in r:
            harness_errors.append((r["sub"], r["harness_error"]))
            continue
        ps = per_sub.setdefault(
            r["sub"],
            {"evaluations": 0, "classes": Counter(), "extra": Counter(), "nontrivial": set(),
             "samples": {}, "failures": [], "seeds": []},
        )
        ps["evaluations"] += r["evaluations"]
        ps["classes"].update(r["classes"])
        ps["extra"].update(r["extra"])
        ps["nontrivial"].update(r["nontrivial"])
        ps["seeds"].append(r["seed"])
        for k, v in r["samples"].items():
            cur = ps["samples"].get(k)
            if cur is None or (k == "smallest" and len(v) < len(cur)) or (k == "largest" and len(v) > len(cur)):
                ps["samples"][k] = v
        for k, v in r["known"].items():
            known_hits[k] += v
        if r["failure"]:
            ps["failures"].append(r["failure"])

    # 3. report
    rp_dir = evidence_dir() / "replays"
    for name, ps in per_sub.items():
        if ps["failures"]:
            # smallest failing case over the workers
            case, msg = min(ps["failures"], key=lambda f: len(json.dumps(f[0])))
            rp_dir.mkdir(parents=True, exist_ok=True)
            h = hashlib.sha1(json.dumps(case, sort_keys=True).encode()).hexdigest()[:10]
            path = rp_dir / f"{mod.ID}-{name}-{h}.json"
            path.write_text(json.dumps(
                {"property": mod.ID, "sub": name, "message": msg, "case": case,
                 "tier": tier, "verif_seed": base_seed}, indent=1) + "\n")
            print(f"violation in {name}: {msg}")
            violations.append((name, str(path)))

    if optimized and optimized.get("violations"):
        rp_dir.mkdir(parents=True, exist_ok=True)
        for name, msg, src in optimized.pop("violations"):
            try:
                data = json.loads(Path(src).read_text())
            except Exception:  # noqa: BLE001
                data = {"property": mod.ID, "sub": name, "message": msg, "case": None}
            data["python_optimize"] = True
            h = hashlib.sha1(json.dumps(data.get("case"), sort_keys=True).encode()).hexdigest()[:10]
            path = rp_dir / f"{mod.ID}-{name}-pyO-{h}.json"
            path.write_text(json.dumps(data, indent=1) + "\n")
            print(f"violation in {name} (interpreter in optimised mode, PYTHONOPTIMIZE=1): {msg}")
            violations.append((name + ":optimized", str(path)))

    samples = []
    sub_cov = {}
    exhaustive_all = bool(subs) and all(s.exhaustive for s in subs)
    for s in subs:
        ps = per_sub.get(s.name)
        if not ps:
            continue
        sub_cov[s.name] = {
            "evaluations": ps["evaluations"],
            "distinct_nontrivial": len(ps["nontrivial"]),
            "classes": dict(sorted(ps["classes"].items())),
            "counters": dict(sorted(ps["extra"].items())),
            "exhaustive": s.exhaustive,
            "desc": s.desc,
        }
        for label, j in ps["samples"].items():
            samples.append({"sub": s.name, "which": label, "case": json.loads(j)})
    coverage = {
        "evaluations": sum(v["evaluations"] for v in sub_cov.values()) + replayed,
        "distinct_nontrivial": sum(v["distinct_nontrivial"] for v in sub_cov.values()),
        "rule": mod.RULE,
        "samples": samples,
        "sub_checks": sub_cov,
        "replays_run": replayed,
        "excluded_known": dict(known_hits),
        "exhaustive": exhaustive_all,
        "workers": NPROC,
        "code_under_test": str(repo_dir()),
    }
    if optimized is not None:
        coverage["optimized_interpreter_rerun"] = optimized
    wall = time.time() - t0
    write_evidence(mod, tier, base_seed, coverage, wall, len(violations))

    if harness_errors:
        for sname, err in harness_errors[:3]:
            print(f"HARNESS-ERROR property={mod.ID} sub={sname}\n{err}", file=sys.stderr)
        if not violations:
            return 2

    for kf in known:
        if known_hits.get(kf["id"]):
            print(f"KNOWN-FINDING: property={mod.ID} {kf['what']} (hit {known_hits[kf['id']]}x)")
        else:
            # listed findings are printed on every run, hit or not, so that the line is stable
            print(f"KNOWN-FINDING: property={mod.ID} {kf['what']} (not reached in this run)")
    if violations:
        for _name, path in violations:
            print(f"VIOLATION property={mod.ID} replay={path}")
        return 1
    tot = coverage["evaluations"]
    print(f"OK property={mod.ID} tier={tier} seed={base_seed} cases={tot} "
          f"nontrivial={coverage['distinct_nontrivial']} wall={wall:.1f}s")
    return 0
