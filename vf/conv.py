"""Conversion between plain (JSON-able) data and tola objects."""

from tola.assembly.assembly import Assembly
from tola.assembly.fragment import Fragment
from tola.assembly.gap import Gap
from tola.assembly.scaffold import Scaffold


def mk_row(r):
    if r[0] == "F":
        tags = tuple(r[5]) if len(r) > 5 else ()
        return Fragment(r[1], r[2], r[3], r[4], tags)
    return Gap(r[1], r[2])


def mk_rows(rows):
    return [mk_row(r) for r in rows]


def mk_scaffold(name, rows):
    return Scaffold(name, mk_rows(rows))


def mk_assembly(name, scaffolds, header=None):
    return Assembly(name, header=list(header or []), scaffolds=[mk_scaffold(n, r) for n, r in scaffolds])


def plain_row(row, with_tags=True):
    if isinstance(row, Gap):
        return ["G", row.length, row.gap_type]
    out = ["F", row.name, row.start, row.end, row.strand]
    if with_tags and row.tags:
        out.append(list(row.tags))
    return out


def plain_rows(rows, with_tags=True):
    return [plain_row(r, with_tags) for r in rows]


def plain_scaffold(s, with_tags=True):
    return [s.name, plain_rows(s.rows, with_tags)]


def plain_assembly(asm, with_tags=True):
    return [plain_scaffold(s, with_tags) for s in asm.scaffolds]
