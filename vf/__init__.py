"""Verification framework for sanger-tol/agp-tpf-utils (property-based testing and fuzzing)."""
