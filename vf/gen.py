"""
Shared Hypothesis strategies.  All of them produce plain (JSON-able) data;
see vf/ref.py for the plain row / scaffold formats.

Remap case (plain):
    {"t": "123.456000",                      texel size exactly as written to the AGP header
     "input": [[scaffold_name, rows], ...],
     "map":   [[pretext_scaffold_name, rows], ...],   rows: ["F", input_scaffold, start, end, strand, [tags]] / ["G",100,"scaffold"]
     "prefix": "SUPER_"}
"""

from __future__ import annotations

import math

from hypothesis import strategies as st

from vf import ref

TEXELS = [1.0, 1.5, 2.0, 7.3, 10.0, 100.0, 123.456, 1000.0]
JOIN_GAP = ["G", 200, "scaffold"]
PRETEXT_GAP = ["G", 100, "scaffold"]


def texel_str(t: float) -> str:
    return f"{t:.6f}"


@st.composite
def texel(draw, small=False):
    if small:
        return draw(st.sampled_from([1.0, 1.5, 2.0, 3.0, 7.3, 10.0]))
    if draw(st.integers(0, 3)) == 0:
        return round(draw(st.floats(1.0, 5000.0, allow_nan=False)), 6)
    return draw(st.sampled_from(TEXELS))


def _contig_len(draw, t, scale):
    T = max(1, int(t))
    k = draw(st.integers(0, 3))
    if k == 0:
        return draw(st.integers(1, T))
    if k == 1:
        return draw(st.integers(1, 4 * T))
    return draw(st.integers(1, scale * T))


NEUTRAL_SCAFFOLD = ["scaffold_{}", "ctg{}", "s{}", "Contig{}", "x.{}", "sc-{}"]
HAP_NAMES = ["hap1", "hap2", "Hap1", "HAP2", "mat", "pat"]


@st.composite
def input_assembly(
    draw,
    t,
    max_scaffolds=6,
    max_contigs=10,
    strands="mixed",  # "mixed" | "fwd"
    shape=None,  # None -> drawn; "contigs" (unique contig names) | "fasta" (contig name == scaffold name)
    hap_prefixes=(),  # haplotype names that may prefix scaffold names (FASTA-shaped only)
    last_contig_min=None,  # C08 precondition: last contig at least this long
    scale=40,
    arbitrary_names=False,
    min_scaffolds=1,
    gap_skip=1,  # a gap separates two contigs with probability (5-gap_skip)/5
):
    n_scaffolds = draw(st.integers(min_scaffolds, max_scaffolds))
    if shape is None:
        shape = draw(st.sampled_from(["contigs", "contigs", "contigs", "fasta", "fasta", "recurated"]))
    T = max(1, int(t))
    pattern = draw(st.sampled_from(NEUTRAL_SCAFFOLD))
    scaffolds = []
    contig_n = 0
    orig_names = ["scaffold_7", "scaffold_8", "ptg000001l"][: draw(st.integers(1, 3))] if shape == "recurated" else []
    orig_pos = {}
    for si in range(n_scaffolds):
        if hap_prefixes and draw(st.booleans()):
            hp = draw(st.sampled_from(list(hap_prefixes)))
            hp = draw(st.sampled_from([hp, hp.upper(), hp.lower()]))
            sname = f"{hp}_scaffold_{si + 1}"
        elif arbitrary_names and draw(st.integers(0, 3)) == 0:
            sname = draw(st.sampled_from(["a_b_{}", "x:{}", "n|{}", "A-B.{}", "hapX_q_{}"])).format(si + 1)
        else:
            sname = pattern.format(si + 1)
        n_contigs = draw(st.integers(1, max_contigs))
        rows = []
        pos = draw(st.integers(1, 50)) if shape == "fasta" else None
        for ci in range(n_contigs):
            ln = _contig_len(draw, t, scale)
            if last_contig_min and ci == n_contigs - 1 and ln < last_contig_min:
                ln = last_contig_min + draw(st.integers(0, 3 * T))
            if ci > 0:
                has_gap = draw(st.integers(0, 4)) >= gap_skip
                if shape == "fasta":
                    has_gap = True  # runs of one record are always separated by a non-ACGT run
                if has_gap:
                    glen = draw(st.sampled_from([1, 10, 100, 200, 200, 200, 2 * T + 1]))
                    gtype = "scaffold" if shape == "fasta" else draw(st.sampled_from(["scaffold", "scaffold", "scaffold", "contig"]))
                    rows.append(["G", glen, gtype])
                    if shape == "fasta":
                        pos += glen
            if shape == "fasta":
                rows.append(["F", sname, pos, pos + ln - 1, 1])
                pos += ln
            elif shape == "recurated":
                # output of an earlier curation round: few original names, disjoint intervals, mixed strands
                oname = draw(st.sampled_from(orig_names))
                opos = orig_pos.get(oname, 1) + draw(st.sampled_from([0, 0, 200]))
                strand = 1 if strands == "fwd" else draw(st.sampled_from([1, -1]))
                rows.append(["F", oname, opos, opos + ln - 1, strand])
                orig_pos[oname] = opos + ln
            else:
                contig_n += 1
                start = draw(st.integers(1, 50))
                strand = 1 if strands == "fwd" else draw(st.sampled_from([1, 1, -1]))
                cname = f"c{contig_n}"
                if arbitrary_names and draw(st.integers(0, 5)) == 0:
                    cname = draw(st.sampled_from(["hap1_ctg_{}", "x:1-{}", "p.q-{}", "HAP2_scaffold_{}", "tig|{}"])).format(contig_n)
                rows.append(["F", cname, start, start + ln - 1, strand])
        scaffolds.append([sname, rows])
    return scaffolds


def texel_count(L, t, up):
    n = L / t
    return math.ceil(n) if up else math.floor(n)


def piece_coords(k1, k2, t):
    return math.floor(k1 * t) + 1, math.floor(k2 * t)


@st.composite
def scaffold_pieces(draw, name, rows, t, cut=True, max_cuts=3):
    """
    PretextView model for one input scaffold: texel count floor/ceil of
    length/texel, cuts on the texel grid, every piece >= 2 texels.
    Returns a list of (input_scaffold, start, end) or [] if absent.
    """
    L = ref.rows_len(rows)
    up = draw(st.booleans())
    n = texel_count(L, t, up)
    if n == 0:
        return []
    if L < t and draw(st.booleans()):
        return []  # sub-texel scaffold absent
    cuts = []
    if cut and n >= 4:
        n_cuts = draw(st.integers(0, min(max_cuts, n // 2 - 1)))
        spans = ref.layout(rows)
        boundaries = [e for (_, e), r in zip(spans, rows) if ref.is_frag(r)] + [s - 1 for (s, _), r in zip(spans, rows) if ref.is_frag(r)]
        cand = []
        for _ in range(n_cuts):
            if boundaries and draw(st.booleans()):
                b = draw(st.sampled_from(boundaries))
                k = int(round(b / t)) + draw(st.integers(-3, 3))
            else:
                k = draw(st.integers(2, n - 2))
            cand.append(k)
        prev = 0
        for k in sorted(set(cand)):
            if k - prev >= 2 and n - k >= 2:
                cuts.append(k)
                prev = k
    ks = [0, *cuts, n]
    pieces = []
    for k1, k2 in zip(ks, ks[1:]):
        s, e = piece_coords(k1, k2, t)
        if e >= s:
            pieces.append([name, s, e])
    return pieces


@st.composite
def edit_script(draw, pieces, identity=False, painted=None, reorder="drawn"):
    """
    Arrange pieces into Pretext scaffolds: permutation, orientation, grouping
    (1-4 pieces per Pretext scaffold), Painted per Pretext scaffold.
    Returns plain pretext scaffolds.
    """
    if not pieces:
        return []
    order = list(range(len(pieces)))
    if not identity:
        mode = draw(st.integers(0, 2)) if reorder == "drawn" else 2
        if mode == 1 and len(order) > 1:
            # light edit: move one piece
            i = draw(st.integers(0, len(order) - 1))
            j = draw(st.integers(0, len(order) - 1))
            order.insert(j, order.pop(i))
        elif mode == 2:
            order = list(draw(st.permutations(order)))
    scaffolds = []
    idx = 0
    n = 0
    while idx < len(order):
        size = 1 if identity else draw(st.sampled_from([1, 1, 2, 3, 4]))
        group = order[idx : idx + size]
        idx += size
        n += 1
        is_painted = painted if painted is not None else draw(st.booleans())
        rows = []
        for gi, pi in enumerate(group):
            name, s, e = pieces[pi]
            strand = 1 if identity else draw(st.sampled_from([1, 1, -1]))
            tags = ["Painted"] if is_painted else []
            if gi:
                rows.append(list(PRETEXT_GAP))
            rows.append(["F", name, s, e, strand, tags])
        scaffolds.append([f"Scaffold_{n}", rows])
    return scaffolds


@st.composite
def model_map(draw, input_plain, t, cut=True, identity=False, painted=None, max_cuts=3):
    pieces = []
    for name, rows in input_plain:
        pieces.extend(draw(scaffold_pieces(name, rows, t, cut=cut, max_cuts=max_cuts)))
    return draw(edit_script(pieces, identity=identity, painted=painted))


KNOWN_TAGS = ["Painted", "Contaminant", "FalseDuplicate", "Haplotig", "Unloc", "Target", "Singleton", "Primary", "Hap1", "Hap2", "X", "B1", "Cut"]


@st.composite
def perturb_map(draw, map_plain, input_plain, t):
    """C01: drop / duplicate / reverse-duplicate / shift / replace / overshoot pieces, sprinkle tags."""
    lengths = {name: ref.rows_len(rows) for name, rows in input_plain}
    names = list(lengths)
    T = max(1, int(t))
    out = [[n, [list(r) for r in rows]] for n, rows in map_plain]
    n_ops = draw(st.integers(1, 4))
    ops = []
    for _ in range(n_ops):
        if not out:
            out.append(["Scaffold_1", []])
        si = draw(st.integers(0, len(out) - 1))
        rows = out[si][1]
        frag_idx = [i for i, r in enumerate(rows) if r[0] == "F"]
        op = draw(st.sampled_from(["drop", "dup", "rev", "shift", "replace", "beyond", "tags", "arbitrary", "hole", "hole", "lap"]))
        ops.append(op)
        if op in ("hole", "lap"):
            # open a hole (or an overlap) of up to 2 texels at a cut between two pieces of one input scaffold
            pairs = []
            allrows = [r for _n, rws in out for r in rws if r[0] == "F"]
            for x in allrows:
                for y in allrows:
                    if x is not y and x[1] == y[1] and y[2] == x[3] + 1:
                        pairs.append((x, y))
            if pairs:
                x, y = pairs[draw(st.integers(0, len(pairs) - 1))]
                d1 = draw(st.integers(0, 2 * T))
                d2 = draw(st.integers(0, 2 * T))
                if op == "hole":
                    x[3] = max(x[2], x[3] - d1)
                    y[2] = min(y[3], y[2] + d2)
                else:
                    x[3] = x[3] + d1
                    y[2] = max(1, y[2] - d2)
            continue
        if op in ("replace", "arbitrary") or not frag_idx:
            name = draw(st.sampled_from(names))
            L = lengths[name]
            a = draw(st.integers(1, L + T))
            b = draw(st.integers(a, max(a, L + 2 * T)))
            tags = ["Painted"] if draw(st.booleans()) else []
            new = ["F", name, a, b, draw(st.sampled_from([1, -1])), tags]
            if op == "replace" and frag_idx:
                rows[draw(st.sampled_from(frag_idx))] = new
            else:
                rows.append(new)
            continue
        i = draw(st.sampled_from(frag_idx))
        r = rows[i]
        if op == "drop":
            rows.pop(i)
        elif op == "dup":
            tgt = draw(st.integers(0, len(out) - 1))
            out[tgt][1].append([*r[:5], list(r[5])])
        elif op == "rev":
            rows.insert(i + 1, [r[0], r[1], r[2], r[3], -r[4], list(r[5])])
        elif op == "shift":
            ds = draw(st.integers(-3 * T, 3 * T))
            de = draw(st.integers(-3 * T, 3 * T))
            a = max(1, r[2] + ds)
            b = max(a, r[3] + de)
            rows[i] = [r[0], r[1], a, b, r[4], list(r[5])]
        elif op == "beyond":
            rows[i] = [r[0], r[1], r[2], r[3] + draw(st.integers(1, 10 * T)), r[4], list(r[5])]
        elif op == "tags":
            extra = draw(st.lists(st.sampled_from(KNOWN_TAGS), min_size=1, max_size=2))
            rows[i] = [*r[:5], sorted(set(r[5]) | set(extra))]
    clean = []
    for n, rows in out:
        frs = [r for r in rows if r[0] == "F"]
        if not frs:
            continue
        new_rows = []
        for k, r in enumerate(frs):
            if k:
                new_rows.append(list(PRETEXT_GAP))
            new_rows.append(r)
        clean.append([n, new_rows])
    return clean, ops


# --------------------------------------------------------------------------
# FASTA files (C03, C04, C13, C14, C15, C17)
#
# plain: {"records": [[name, description, residues, width, eol]], "final_newline": bool}
# eol is "\n" or "\r\n"; description is "" or text placed after a separator (" " or "\t" as first char)

ACGT = "ACGTacgt"
IUPAC_OTHER = "RYMKSWHBVDrymkswhbvd"
ODD = "*-.xXuU"
WIDTHS = [1, 2, 3, 5, 7, 10, 11, 60, 61, 80]


@st.composite
def residue_string(draw, n, acgt_only=False):
    if n == 0:
        return ""
    pattern = draw(st.text(alphabet=ACGT, min_size=4, max_size=12))
    style = 0 if acgt_only else draw(st.integers(0, 4))
    if style == 0:
        reps = n // len(pattern) + 1
        return (pattern * reps)[:n]
    out = []
    total = 0
    k = 0
    while total < n:
        kind = draw(st.sampled_from(["acgt", "acgt", "N", "n", "iupac", "odd", "mixN"]))
        run = min(n - total, draw(st.sampled_from([1, 1, 2, 3, 5, 10, 60, 61, 200])))
        if kind == "acgt":
            off = (k * 7) % len(pattern)
            seg = ((pattern * (run // len(pattern) + 2))[off : off + run])
        elif kind == "N":
            seg = "N" * run
        elif kind == "n":
            seg = "n" * run
        elif kind == "iupac":
            seg = (IUPAC_OTHER * (run // len(IUPAC_OTHER) + 1))[:run]
        elif kind == "odd":
            seg = (ODD * (run // len(ODD) + 1))[:run]
        else:
            seg = ("Nn" * run)[:run]
        out.append(seg)
        total += run
        k += 1
    return "".join(out)


FASTA_NAME_ALPHABET = "abcdefgXYZ0123456789_-.:|#+=@/é"


@st.composite
def fasta_record(draw, idx, acgt_only=False, max_lines=12, min_len=0):
    width = draw(st.sampled_from(WIDTHS))
    cls = draw(st.integers(0, 9))
    if cls == 0:
        n = min_len  # (nearly) empty record, own class
    elif cls == 1:
        n = 1
    elif cls == 2:
        n = max(1, width - 1)
    elif cls == 3:
        n = width
    elif cls == 4:
        n = width + 1
    elif cls == 5:
        n = width * draw(st.integers(1, max_lines))
    else:
        n = draw(st.integers(1, width * max_lines))
    n = max(n, min_len)
    seq = draw(residue_string(n, acgt_only=acgt_only))
    base = draw(st.text(alphabet=FASTA_NAME_ALPHABET, min_size=1, max_size=8))
    name = f"{base}{idx}"  # unique by construction
    desc = draw(st.sampled_from(["", "", " len=5 desc", "\tx y", "  two spaces"]))
    eol = draw(st.sampled_from(["\n", "\n", "\r\n"]))
    return [name, desc, seq, width, eol]


@st.composite
def fasta_file(draw, max_records=6, acgt_only=False, max_lines=12, min_len=0, final_newline=None):
    n = draw(st.integers(1, max_records))
    records = [draw(fasta_record(i + 1, acgt_only=acgt_only, max_lines=max_lines, min_len=min_len)) for i in range(n)]
    fn = draw(st.sampled_from([True, True, False])) if final_newline is None else final_newline
    return {"records": records, "final_newline": fn}


def fasta_bytes(plain) -> bytes:
    out = []
    for name, desc, seq, width, eol in plain["records"]:
        out.append(f">{name}{desc}{eol}".encode())
        for i in range(0, len(seq), width):
            out.append(seq[i : i + width].encode("latin-1") + eol.encode())
    data = b"".join(out)
    if not plain["final_newline"]:
        last_eol = plain["records"][-1][4].encode()
        if data.endswith(last_eol):
            data = data[: -len(last_eol)]
    return data
