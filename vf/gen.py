"""
Shared Hypothesis strategies.  All of them produce plain (JSON-able) data;
see vf/ref.py for the plain row / scaffold formats.

Remap case (plain):
    {"t": "123.456000",                      texel size exactly as written to the AGP header
     "input": [[scaffold_name, rows], ...],
     "map":   [[pretext_scaffold_name, rows], ...],   rows: ["F", input_scaffold, start, end, strand, [tags]] / ["G",100,"scaffold"]
     "prefix": "SUPER_"}
"""

from __future__ import annotations

import math

from hypothesis import strategies as st

from vf import ref

TEXELS = [1.0, 1.5, 2.0, 7.3, 10.0, 100.0, 123.456, 1000.0]
JOIN_GAP = ["G", 200, "scaffold"]
PRETEXT_GAP = ["G", 100, "scaffold"]


def texel_str(t: float) -> str:
    return f"{t:.6f}"


@st.composite
def texel(draw, small=False):
    if small:
        return draw(st.sampled_from([1.0, 1.5, 2.0, 3.0, 7.3, 10.0]))
    if draw(st.integers(0, 3)) == 0:
        return round(draw(st.floats(1.0, 5000.0, allow_nan=False)), 6)
    return draw(st.sampled_from(TEXELS))


def _contig_len(draw, t, scale):
    T = max(1, int(t))
    k = draw(st.integers(0, 3))
    if k == 0:
        return draw(st.integers(1, T))
    if k == 1:
        return draw(st.integers(1, 4 * T))
    return draw(st.integers(1, scale * T))


# none of these matches the haplotype pattern <word>_<anything>_<digits>; the last three are just outside it
NEUTRAL_SCAFFOLD = ["scaffold_{}", "ctg{}", "s{}", "Contig{}", "x.{}", "sc-{}", "HiC_scaffold_{}_RagTag", "ctg_12_{}_pilon", "a_b_{}x"]
HAP_NAMES = ["hap1", "hap2", "Hap1", "HAP2", "mat", "pat"]


@st.composite
def input_assembly(
    draw,
    t,
    max_scaffolds=6,
    max_contigs=10,
    strands="mixed",  # "mixed" | "fwd"
    shape=None,  # None -> drawn; "contigs" (unique contig names) | "fasta" (contig name == scaffold name)
    hap_prefixes=(),  # haplotype names that may prefix scaffold names (FASTA-shaped only)
    last_contig_min=None,  # C08 precondition: last contig at least this long
    scale=40,
    arbitrary_names=False,
    min_scaffolds=1,
    gap_skip=1,  # a gap separates two contigs with probability (5-gap_skip)/5
    texel_sized_gaps=False,  # gaps of about two texels (pieces that cover mostly gap)
    odd_gap_types=False,  # gap types that differ from the usual ones only in letter case
    double_gaps=False,  # sometimes two gap rows between two contigs (e.g. a scaffold gap next to a centromere gap)
    terminal_gaps=False,  # FASTA-derived class with terminal N runs: scaffolds may start / end with a gap row (C01, C06 only)
):
    n_scaffolds = draw(st.integers(min_scaffolds, max_scaffolds))
    if shape is None:
        shape = draw(st.sampled_from(["contigs", "contigs", "contigs", "fasta", "fasta", "recurated"]))
    T = max(1, int(t))
    pattern = draw(st.sampled_from(NEUTRAL_SCAFFOLD))
    scaffolds = []
    contig_n = 0
    orig_names = ["scaffold_7", "scaffold_8", "ptg000001l"][: draw(st.integers(1, 3))] if shape == "recurated" else []
    orig_pos = {}
    for si in range(n_scaffolds):
        if hap_prefixes and draw(st.booleans()):
            hp = draw(st.sampled_from(list(hap_prefixes)))
            hp = draw(st.sampled_from([hp, hp.upper(), hp.lower()]))
            sname = f"{hp}_scaffold_{si + 1}"
        elif arbitrary_names and draw(st.integers(0, 3)) == 0:
            sname = draw(st.sampled_from(["a_b_{}", "x:{}", "n|{}", "A-B.{}", "hapX_q_{}"])).format(si + 1)
        else:
            sname = pattern.format(si + 1)
        n_contigs = draw(st.integers(1, max_contigs))
        rows = []
        pos = draw(st.integers(1, 50)) if shape == "fasta" else None
        for ci in range(n_contigs):
            ln = _contig_len(draw, t, scale)
            if last_contig_min and ci == n_contigs - 1 and ln < last_contig_min:
                ln = last_contig_min + draw(st.integers(0, 3 * T))
            if ci > 0:
                has_gap = draw(st.integers(0, 4)) >= gap_skip
                if shape == "fasta":
                    has_gap = True  # runs of one record are always separated by a non-ACGT run
                if has_gap:
                    if texel_sized_gaps:
                        glen = draw(st.sampled_from([2 * T - 1, 2 * T, 2 * T + 1, 3 * T, 200]))
                    else:
                        glen = draw(st.sampled_from([1, 10, 100, 200, 200, 200, 2 * T + 1]))
                    gtype = "scaffold" if shape == "fasta" else draw(st.sampled_from(["scaffold", "scaffold", "scaffold", "contig"]))
                    if odd_gap_types and shape != "fasta" and draw(st.integers(0, 5)) == 0:
                        gtype = draw(st.sampled_from(["Scaffold", "SCAFFOLD", "Contig"]))
                    rows.append(["G", glen, gtype])
                    if shape == "fasta":
                        pos += glen
                    if double_gaps and draw(st.integers(0, 3)) == 0:
                        g2 = draw(st.sampled_from([1, 50, 3000, glen]))
                        rows.append(["G", g2, gtype if g2 == glen and shape != "fasta" else "centromere"] if g2 != glen or shape != "fasta" else ["G", g2, gtype])
                        if shape == "fasta":
                            pos += g2
            if shape == "fasta":
                rows.append(["F", sname, pos, pos + ln - 1, 1])
                pos += ln
            elif shape == "recurated":
                # output of an earlier curation round: few original names, disjoint intervals, mixed strands
                oname = draw(st.sampled_from(orig_names))
                opos = orig_pos.get(oname, 1) + draw(st.sampled_from([0, 0, 200]))
                strand = 1 if strands == "fwd" else draw(st.sampled_from([1, -1]))
                rows.append(["F", oname, opos, opos + ln - 1, strand])
                orig_pos[oname] = opos + ln
            else:
                contig_n += 1
                start = draw(st.integers(1, 50))
                strand = 1 if strands == "fwd" else draw(st.sampled_from([1, 1, -1]))
                cname = f"c{contig_n}"
                if arbitrary_names and draw(st.integers(0, 5)) == 0:
                    cname = draw(st.sampled_from(["hap1_ctg_{}", "x:1-{}", "p.q-{}", "HAP2_scaffold_{}", "tig|{}"])).format(contig_n)
                rows.append(["F", cname, start, start + ln - 1, strand])
        if terminal_gaps and draw(st.integers(0, 2)) == 0:
            if draw(st.booleans()):
                rows.insert(0, ["G", draw(st.sampled_from([1, 10, 200, 2 * T + 1])), "scaffold"])
            if draw(st.booleans()):
                rows.append(["G", draw(st.sampled_from([1, 10, 200, 2 * T + 1])), "scaffold"])
        scaffolds.append([sname, rows])
    return scaffolds


def texel_count(L, t, up):
    n = L / t
    return math.ceil(n) if up else math.floor(n)


def piece_coords(k1, k2, t):
    return math.floor(k1 * t) + 1, math.floor(k2 * t)


@st.composite
def scaffold_pieces(draw, name, rows, t, cut=True, max_cuts=3):
    """
    PretextView model for one input scaffold: texel count floor/ceil of
    length/texel, cuts on the texel grid, every piece >= 2 texels.
    Returns a list of (input_scaffold, start, end) or [] if absent.
    """
    L = ref.rows_len(rows)
    up = draw(st.booleans())
    n = texel_count(L, t, up)
    if n == 0:
        return []
    if L < t and draw(st.booleans()):
        return []  # sub-texel scaffold absent
    cuts = []
    if cut and n >= 4:
        n_cuts = draw(st.integers(0, min(max_cuts, n // 2 - 1)))
        spans = ref.layout(rows)
        boundaries = [e for (_, e), r in zip(spans, rows) if ref.is_frag(r)] + [s - 1 for (s, _), r in zip(spans, rows) if ref.is_frag(r)]
        cand = []
        for _ in range(n_cuts):
            if boundaries and draw(st.booleans()):
                b = draw(st.sampled_from(boundaries))
                k = int(round(b / t)) + draw(st.integers(-3, 3))
            else:
                k = draw(st.integers(2, n - 2))
            cand.append(k)
        prev = 0
        for k in sorted(set(cand)):
            if k - prev >= 2 and n - k >= 2:
                cuts.append(k)
                prev = k
    ks = [0, *cuts, n]
    pieces = []
    for k1, k2 in zip(ks, ks[1:]):
        s, e = piece_coords(k1, k2, t)
        if e >= s:
            pieces.append([name, s, e])
    return pieces


@st.composite
def edit_script(draw, pieces, identity=False, painted=None, reorder="drawn"):
    """
    Arrange pieces into Pretext scaffolds: permutation, orientation, grouping
    (1-4 pieces per Pretext scaffold), Painted per Pretext scaffold.
    Returns plain pretext scaffolds.
    """
    if not pieces:
        return []
    order = list(range(len(pieces)))
    if not identity:
        mode = draw(st.integers(0, 2)) if reorder == "drawn" else 2
        if mode == 1 and len(order) > 1:
            # light edit: move one piece
            i = draw(st.integers(0, len(order) - 1))
            j = draw(st.integers(0, len(order) - 1))
            order.insert(j, order.pop(i))
        elif mode == 2:
            order = list(draw(st.permutations(order)))
    scaffolds = []
    idx = 0
    n = 0
    while idx < len(order):
        size = 1 if identity else draw(st.sampled_from([1, 1, 2, 3, 4]))
        group = order[idx : idx + size]
        idx += size
        n += 1
        is_painted = painted if painted is not None else draw(st.booleans())
        rows = []
        for gi, pi in enumerate(group):
            name, s, e = pieces[pi]
            strand = 1 if identity else draw(st.sampled_from([1, 1, -1]))
            tags = ["Painted"] if is_painted else []
            if gi:
                rows.append(list(PRETEXT_GAP))
            rows.append(["F", name, s, e, strand, tags])
        scaffolds.append([f"Scaffold_{n}", rows])
    return scaffolds


@st.composite
def model_map(draw, input_plain, t, cut=True, identity=False, painted=None, max_cuts=3):
    pieces = []
    for name, rows in input_plain:
        pieces.extend(draw(scaffold_pieces(name, rows, t, cut=cut, max_cuts=max_cuts)))
    return draw(edit_script(pieces, identity=identity, painted=painted))


KNOWN_TAGS = ["Painted", "Contaminant", "FalseDuplicate", "Haplotig", "Unloc", "Target", "Singleton", "Primary", "Hap1", "Hap2", "X", "B1", "Cut"]


@st.composite
def small_contig_hole_case(draw):
    """
    A contig of up to ~2.5 texels between two large ones, with or without gap rows next to it; the map breaks the
    scaffold either side of it and leaves a HOLE: the left piece reaches a bases into the small contig, the right piece
    starts b bases before its end (0 <= a, b <= about a texel). Not a map PretextView writes (C01 / C11 domain).
    """
    t = draw(st.sampled_from([10.0, 100.0, 7.5, 1.0, 33.3]))
    T = max(1, int(t))
    inp, mp = [], []
    for i in range(draw(st.integers(1, 2))):
        name = f"S{i + 1}"
        rows = []
        k = 0

        def contig(ln):
            nonlocal k
            k += 1
            return ["F", f"ctg{i + 1}_{k}", draw(st.integers(1, 20)), 0, draw(st.sampled_from([1, 1, -1]))], ln

        def add(ln):
            r, ln_ = contig(ln)
            r[3] = r[2] + ln_ - 1
            rows.append(r)

        add(draw(st.integers(3, 8)) * T + draw(st.integers(0, T)))
        if draw(st.booleans()):
            rows.append(["G", draw(st.sampled_from([1, 200, T, 2 * T + 3])), "scaffold"])
        small_len = draw(st.integers(1, max(2, int(2.5 * T))))
        before = ref.rows_len(rows)
        add(small_len)
        if draw(st.booleans()):
            rows.append(["G", draw(st.sampled_from([1, 200, T])), "scaffold"])
        add(draw(st.integers(3, 8)) * T)
        total = ref.rows_len(rows)
        a = draw(st.integers(0, min(small_len, T + 2)))
        b = draw(st.integers(0, min(small_len - a, T + 2)))
        e1 = before + a
        s2 = before + small_len - b + 1
        inp.append([name, rows])
        tags = ["Painted"] if draw(st.booleans()) else []
        if e1 >= 1:
            mp.append([f"Scaffold_{len(mp) + 1}", [["F", name, 1, e1, draw(st.sampled_from([1, 1, -1])), list(tags)]]])
        if s2 <= total:
            mp.append([f"Scaffold_{len(mp) + 1}", [["F", name, s2, total, draw(st.sampled_from([1, 1, -1])), list(tags)]]])
    if draw(st.booleans()) and len(mp) >= 2:
        # both pieces in one Pretext scaffold
        mp = [["Scaffold_1", [x for k_, (_n, rws) in enumerate(mp) for x in ([list(PRETEXT_GAP)] if k_ else []) + rws]]]
    return {"t": texel_str(t), "input": inp, "map": mp, "prefix": "SUPER_", "kind": "small_contig_hole"}


@st.composite
def perturb_map(draw, map_plain, input_plain, t):
    """C01: drop / duplicate / reverse-duplicate / shift / replace / overshoot pieces, sprinkle tags."""
    lengths = {name: ref.rows_len(rows) for name, rows in input_plain}
    names = list(lengths)
    T = max(1, int(t))
    out = [[n, [list(r) for r in rows]] for n, rows in map_plain]
    n_ops = draw(st.integers(1, 4))
    ops = []
    for _ in range(n_ops):
        if not out:
            out.append(["Scaffold_1", []])
        si = draw(st.integers(0, len(out) - 1))
        rows = out[si][1]
        frag_idx = [i for i, r in enumerate(rows) if r[0] == "F"]
        op = draw(st.sampled_from(["drop", "dup", "rev", "shift", "replace", "beyond", "tags", "arbitrary", "hole", "hole", "lap", "whole"]))
        ops.append(op)
        if op == "whole":
            # a line presenting a whole input scaffold, in addition to whatever pieces of it the map already holds
            # (a contig cut between two pieces then also lies in the interior of a third)
            present = sorted({r[1] for _n, rws in out for r in rws if r[0] == "F" and r[1] in lengths}) or names
            name = draw(st.sampled_from(present))
            new = ["F", name, 1, lengths[name], draw(st.sampled_from([1, -1])), ["Painted"] if draw(st.booleans()) else []]
            out[draw(st.integers(0, len(out) - 1))][1].append(new)
            continue
        if op in ("hole", "lap"):
            # open a hole (or an overlap) of up to 2 texels at a cut between two pieces of one input scaffold
            pairs = []
            allrows = [r for _n, rws in out for r in rws if r[0] == "F"]
            for x in allrows:
                for y in allrows:
                    if x is not y and x[1] == y[1] and y[2] == x[3] + 1:
                        pairs.append((x, y))
            if pairs:
                x, y = pairs[draw(st.integers(0, len(pairs) - 1))]
                d1 = draw(st.integers(0, 2 * T))
                d2 = draw(st.integers(0, 2 * T))
                if op == "hole":
                    x[3] = max(x[2], x[3] - d1)
                    y[2] = min(y[3], y[2] + d2)
                else:
                    x[3] = x[3] + d1
                    y[2] = max(1, y[2] - d2)
            continue
        if op in ("replace", "arbitrary") or not frag_idx:
            name = draw(st.sampled_from(names))
            L = lengths[name]
            a = draw(st.integers(1, L + T))
            b = draw(st.integers(a, max(a, L + 2 * T)))
            tags = ["Painted"] if draw(st.booleans()) else []
            new = ["F", name, a, b, draw(st.sampled_from([1, -1])), tags]
            if op == "replace" and frag_idx:
                rows[draw(st.sampled_from(frag_idx))] = new
            else:
                rows.append(new)
            continue
        i = draw(st.sampled_from(frag_idx))
        r = rows[i]
        if op == "drop":
            rows.pop(i)
        elif op == "dup":
            tgt = draw(st.integers(0, len(out) - 1))
            out[tgt][1].append([*r[:5], list(r[5])])
        elif op == "rev":
            rows.insert(i + 1, [r[0], r[1], r[2], r[3], -r[4], list(r[5])])
        elif op == "shift":
            ds = draw(st.integers(-3 * T, 3 * T))
            de = draw(st.integers(-3 * T, 3 * T))
            a = max(1, r[2] + ds)
            b = max(a, r[3] + de)
            rows[i] = [r[0], r[1], a, b, r[4], list(r[5])]
        elif op == "beyond":
            rows[i] = [r[0], r[1], r[2], r[3] + draw(st.integers(1, 10 * T)), r[4], list(r[5])]
        elif op == "tags":
            extra = draw(st.lists(st.sampled_from(KNOWN_TAGS), min_size=1, max_size=2))
            rows[i] = [*r[:5], sorted(set(r[5]) | set(extra))]
    clean = []
    for n, rows in out:
        frs = [r for r in rows if r[0] == "F"]
        if not frs:
            continue
        new_rows = []
        for k, r in enumerate(frs):
            if k:
                new_rows.append(list(PRETEXT_GAP))
            new_rows.append(r)
        clean.append([n, new_rows])
    return clean, ops


# --------------------------------------------------------------------------
# FASTA files (C03, C04, C13, C14, C15, C17)
#
# plain: {"records": [[name, description, residues, width, eol]], "final_newline": bool}
# eol is "\n" or "\r\n"; description is "" or text placed after a separator (" " or "\t" as first char)

ACGT = "ACGTacgt"
IUPAC_OTHER = "RYMKSWHBVDrymkswhbvd"
ODD = "*-.xXuU"
WIDTHS = [1, 2, 3, 5, 7, 10, 11, 60, 61, 80]


@st.composite
def residue_string(draw, n, acgt_only=False):
    if n == 0:
        return ""
    pattern = draw(st.text(alphabet=ACGT, min_size=4, max_size=12))
    style = 0 if acgt_only else draw(st.integers(0, 4))
    if style == 0:
        reps = n // len(pattern) + 1
        return (pattern * reps)[:n]
    out = []
    total = 0
    k = 0
    while total < n:
        kind = draw(st.sampled_from(["acgt", "acgt", "N", "n", "iupac", "odd", "mixN"]))
        run = min(n - total, draw(st.sampled_from([1, 1, 2, 3, 5, 10, 60, 61, 200])))
        if kind == "acgt":
            off = (k * 7) % len(pattern)
            seg = ((pattern * (run // len(pattern) + 2))[off : off + run])
        elif kind == "N":
            seg = "N" * run
        elif kind == "n":
            seg = "n" * run
        elif kind == "iupac":
            seg = (IUPAC_OTHER * (run // len(IUPAC_OTHER) + 1))[:run]
        elif kind == "odd":
            seg = (ODD * (run // len(ODD) + 1))[:run]
        else:
            seg = ("Nn" * run)[:run]
        out.append(seg)
        total += run
        k += 1
    return "".join(out)


FASTA_NAME_ALPHABET = "abcdefgXYZ0123456789_-.:|#+=@/é"


EXOTIC_DESC = [" caf\xe9 latin-1", "\t\xff\xfe raw bytes", " a\xa0b", " \x85next", " primary assembly ", "\t", "  "]
EXOTIC_NAME_PARTS = ["\u00a0", "\x1f", "\u2003", "\x1c"]


@st.composite
def fasta_record(draw, idx, acgt_only=False, max_lines=12, min_len=0, exotic_headers=False):
    width = draw(st.sampled_from(WIDTHS))
    cls = draw(st.integers(0, 9))
    if cls == 0:
        n = min_len  # (nearly) empty record, own class
    elif cls == 1:
        n = 1
    elif cls == 2:
        n = max(1, width - 1)
    elif cls == 3:
        n = width
    elif cls == 4:
        n = width + 1
    elif cls == 5:
        n = width * draw(st.integers(1, max_lines))
    else:
        n = draw(st.integers(1, width * max_lines))
    n = max(n, min_len)
    seq = draw(residue_string(n, acgt_only=acgt_only))
    base = draw(st.text(alphabet=FASTA_NAME_ALPHABET, min_size=1, max_size=8))
    name = f"{base}{idx}"  # unique by construction
    desc = draw(st.sampled_from(["", "", " len=5 desc", "\tx y", "  two spaces"]))
    if exotic_headers and draw(st.integers(0, 3)) == 0:
        # descriptions are written as latin-1 (not valid UTF-8); names may contain characters that are
        # white space for str.split() but not for faidx / bytes.split()
        desc = draw(st.sampled_from(EXOTIC_DESC))
        if draw(st.booleans()):
            name = f"{base}{draw(st.sampled_from(EXOTIC_NAME_PARTS))}{idx}"
    eol = draw(st.sampled_from(["\n", "\n", "\r\n"]))
    rec_ = [name, desc, seq, width, eol]
    if exotic_headers and n > 0 and draw(st.integers(0, 7)) == 0:
        rec_.append(draw(st.integers(1, 2)))  # empty line(s) after the record's last sequence line (cat a.fa <(echo) b.fa)
    return rec_


@st.composite
def fasta_file(draw, max_records=6, acgt_only=False, max_lines=12, min_len=0, final_newline=None, exotic_headers=False):
    n = draw(st.integers(1, max_records))
    records = [draw(fasta_record(i + 1, acgt_only=acgt_only, max_lines=max_lines, min_len=min_len, exotic_headers=exotic_headers)) for i in range(n)]
    fn = draw(st.sampled_from([True, True, False])) if final_newline is None else final_newline
    return {"records": records, "final_newline": fn}


def fasta_bytes(plain) -> bytes:
    out = []
    for name, desc, seq, width, eol, *more in plain["records"]:
        out.append(f">{name}".encode() + desc.encode("latin-1") + eol.encode())
        for i in range(0, len(seq), width):
            out.append(seq[i : i + width].encode("latin-1") + eol.encode())
        if more:
            out.append(eol.encode() * more[0])
    data = b"".join(out)
    if not plain["final_newline"]:
        last_eol = plain["records"][-1][4].encode()
        if data.endswith(last_eol):
            data = data[: -len(last_eol)]
    return data


# --------------------------------------------------------------------------
# Consistent taggings of PretextView-model maps (C09, C10, C16, C17)

NAME_TAGS = ["X", "Y", "Z", "W", "U", "V", "B1", "B2", "X1", "I", "II", "III", "IV", "I_II", "2RL"]
PREFIXES = ["SUPER_", "SUPER_", "SUPER_", "CHR", "chr_", "LG", "Scaffold_", "S"]


def _put_scaffold_tag(draw, frag_rows, tag):
    """scaffold-level tags sit on the first piece or on every piece (both occur in real maps)"""
    if draw(st.booleans()):
        for r in frag_rows:
            if tag not in r[5]:
                r[5].append(tag)
    else:
        if tag not in frag_rows[0][5]:
            frag_rows[0][5].append(tag)


@st.composite
def tagged_case(
    draw,
    two_haplotypes=None,
    target_mode=None,
    max_scaffolds=6,
    max_contigs=8,
    small_texel=False,
    piece_tag_weight=6,  # 1 in N pieces gets Haplotig / Contaminant / FalseDuplicate
    unloc_weight=4,
    many_painted=False,
    exact=False,  # t = 1 and no cuts inside contigs: every length is known exactly
    fasta=None,  # plain FASTA to derive the input from (names already haplotype-prefixed if wanted)
    slivers=False,  # small fractional texels, gaps of ~2 texels, many cuts near contig ends
    primary_mode=None,  # two haplotypes, only the first is curated; its first painted scaffold carries `Primary`
    group_sizes=None,  # sizes of Pretext scaffolds to draw from
    all_painted=False,
    unprefixed_in_primary=False,  # Primary mode: also scaffolds without a haplotype prefix (a second non-primary curated assembly)
    odd_haplotype_names=False,  # haplotype tag pairs that differ only in punctuation / blanks ("Hap 1" and "Hap_1")
    mixed_unplaced=False,  # unpainted Pretext scaffolds may hold pieces of input scaffolds of BOTH haplotypes
):
    if exact:
        t = 1.0
    elif slivers:
        t = draw(st.sampled_from([1.5, 1.9, 2.5, 3.7, 7.3]))
    else:
        t = draw(texel(small=small_texel))
    two = draw(st.integers(0, 2)) == 0 if two_haplotypes is None else two_haplotypes
    hap_pairs = [["Hap1", "Hap2"], ["hap1", "hap2"], ["HAP1", "HAP2"], ["mat", "pat"], ["1", "2"]]
    if odd_haplotype_names:
        hap_pairs += [["Hap 1", "Hap_1"], ["hap.a", "hap-a"], ["Hap 1", "Hap_1"]]
    haps = draw(st.sampled_from(hap_pairs)) if two else []
    primary = bool(two) and fasta is None and (draw(st.integers(0, 3)) == 0 if primary_mode is None else primary_mode)
    if fasta is not None:
        from vf.props.c03 import fasta_input_plain

        inp = fasta_input_plain(fasta)
    elif two:
        inp = draw(input_assembly(t, max_scaffolds=max_scaffolds, max_contigs=max_contigs, shape="fasta",
                                  min_scaffolds=2, strands="fwd"))
        for i, sc in enumerate(inp):
            if i >= 2 and (not primary or unprefixed_in_primary) and draw(st.integers(0, 1 if unprefixed_in_primary else 4)) == 0:
                # a scaffold without a haplotype prefix (organelle, unassigned): belongs to no haplotype
                new = draw(st.sampled_from(["MT{}", "scaffold_{}", "unassigned{}"])).format(90 + i)
                for r in sc[1]:
                    if r[0] == "F":
                        r[1] = new
                sc[0] = new
                continue
            hp = haps[i % 2] if i < 2 else draw(st.sampled_from(haps))
            hp = draw(st.sampled_from([hp, hp.upper(), hp.lower()]))
            new = f"{hp}_scaffold_{i + 1}"
            for r in sc[1]:
                if r[0] == "F":
                    r[1] = new
            sc[0] = new
    else:
        inp = draw(input_assembly(t, max_scaffolds=max_scaffolds, max_contigs=max_contigs,
                                  min_scaffolds=3 if many_painted else 1, texel_sized_gaps=slivers,
                                  scale=12 if slivers else 40))
    hap_of = {}
    for name, _rows in inp:
        hap_of[name] = next((h for h in haps if name.lower().startswith(h.lower() + "_")), None)

    pieces = []
    for name, rows in inp:
        pieces.extend(draw(scaffold_pieces(name, rows, t, cut=True, max_cuts=8 if slivers else 3)))
    if exact:
        # snap piece boundaries to contig boundaries (t = 1: every coordinate is on the grid)
        pieces = []
        for name, rows in inp:
            spans = [sp for sp, r in zip(ref.layout(rows), rows) if r[0] == "F"]
            start = 1
            for k, (s, e) in enumerate(spans):
                last = k == len(spans) - 1
                if last or draw(st.integers(0, 2)) == 0:
                    pieces.append([name, start, e])
                    start = spans[k + 1][0] if not last else None

    # arrange pieces into Pretext scaffolds; in two-haplotype maps painted scaffolds follow the
    # homologue-group layout: one first-haplotype scaffold, then 0-2 second-haplotype scaffolds
    order = list(draw(st.permutations(range(len(pieces)))))
    scaffolds = []  # dicts: rows (fragment rows), painted, hap, name_tag, singleton
    idx = 0
    while idx < len(order):
        size = draw(st.sampled_from(group_sizes or ([1, 1, 2, 3, 4] if not many_painted else [1, 1, 1, 2])))
        group = order[idx : idx + size]
        idx += len(group)  # (not `size`: pieces deferred to the end of `order` below must still be reached)
        painted = True if all_painted else (draw(st.integers(0, 3)) > 0 if many_painted else draw(st.booleans()))
        rows = []
        for pi in group:
            name, s, e = pieces[pi]
            rows.append(["F", name, s, e, draw(st.sampled_from([1, 1, -1])), ["Painted"] if painted else []])
        if primary and painted and any(hap_of[r[1]] != haps[0] for r in rows):
            # only the first haplotype is curated in Primary mode
            painted = False
            for r in rows:
                r[5] = []
        if two and not painted and not mixed_unplaced:
            # an unplaced Pretext scaffold draws its pieces from input scaffolds of one haplotype
            h0 = hap_of[rows[0][1]]
            rows = [r for r in rows if hap_of[r[1]] == h0]
            for pi in group:
                if hap_of[pieces[pi][0]] != h0:
                    order.append(pi)
        scaffolds.append({"rows": rows, "painted": painted, "hap": None, "name_tag": None})

    painted_sc = [s for s in scaffolds if s["painted"]]
    unpainted_sc = [s for s in scaffolds if not s["painted"]]
    if two and not primary:
        # assign haplotypes to painted scaffolds in groups H1 (H2){0,2}
        ordered = []
        k = 0
        while k < len(painted_sc):
            first = painted_sc[k]
            first["hap"] = haps[0]
            ordered.append(first)
            k += 1
            n2 = draw(st.integers(0, 2))
            took = 0
            while took < n2 and k < len(painted_sc):
                painted_sc[k]["hap"] = haps[1]
                ordered.append(painted_sc[k])
                k += 1
                took += 1
            if took == 0:
                first["singleton"] = True
        painted_sc = ordered
    # interleave unpainted scaffolds at drawn positions, keeping the painted order
    final = list(painted_sc)
    if primary and not painted_sc:
        primary = False
    if primary:
        painted_sc[0]["primary_tag"] = True
    if primary or draw(st.booleans()):
        final += unpainted_sc  # as PretextView writes them: painted chromosomes first, unplaced scaffolds after
    else:
        for s in unpainted_sc:
            final.insert(draw(st.integers(0, len(final))), s)

    # name tags (unique per haplotype), at most one per scaffold
    pool = {h: list(NAME_TAGS) for h in (haps or [None])}
    used = []
    for s in final:
        # (a name tag without Painted, 1 in 8 of the unpainted scaffolds: still a named chromosome)
        if (s["painted"] or (s["rows"] and not two and draw(st.integers(0, 7)) == 0)) and (draw(st.integers(0, 4)) == 0 or (two and used and s["hap"] == haps[1] and draw(st.booleans()))):
            p = pool.setdefault(s["hap"], list(NAME_TAGS))
            if two and used and draw(st.integers(0, 2)) > 0 and used[-1] in p:
                # the same chromosome (e.g. X) painted in both haplotypes
                p.remove(used[-1])
                s["name_tag"] = used[-1]
            elif p:
                s["name_tag"] = p.pop(draw(st.integers(0, len(p) - 1)))
            if s["name_tag"]:
                used.append(s["name_tag"])

    # Target mode
    tm = draw(st.integers(0, 4)) == 0 if target_mode is None else target_mode
    target_from = draw(st.integers(0, len(final) - 1)) if tm and final else None

    out = []
    for n, s in enumerate(final):
        rows = s["rows"]
        if not rows:
            continue
        if s["hap"]:
            spelled = draw(st.sampled_from([s["hap"], s["hap"], s["hap"].upper()]))
            _put_scaffold_tag(draw, rows, spelled)
        if s.get("singleton"):
            _put_scaffold_tag(draw, rows, "Singleton")
        if s.get("primary_tag"):
            _put_scaffold_tag(draw, rows, "Primary")
        if s["name_tag"]:
            _put_scaffold_tag(draw, rows, s["name_tag"])
        # in Target mode every painted (i.e. curated) scaffold is a target; unpainted ones may be left untagged
        if target_from is not None and n >= target_from and (n == target_from or s["painted"] or draw(st.booleans())):
            _put_scaffold_tag(draw, rows, "Target")
        # piece tags
        n_unloc = 0
        for k, r in enumerate(rows):
            if draw(st.integers(0, piece_tag_weight - 1)) == 0:
                r[5].append(draw(st.sampled_from(["Haplotig", "Haplotig", "Contaminant", "FalseDuplicate"])))
                if s["painted"] and len(rows) > 1 and draw(st.integers(0, 3)) == 0:
                    r[5].append("Unloc")  # an unloc that is also removed: the piece tag decides where it goes
            elif s["painted"] and len(rows) > 1 and n_unloc < len(rows) - 1 and draw(st.integers(0, unloc_weight - 1)) == 0:
                r[5].append("Unloc")
                n_unloc += 1
        plain_rows = []
        for k, r in enumerate(rows):
            if k:
                plain_rows.append(list(PRETEXT_GAP))
            plain_rows.append(r)
        out.append([f"Scaffold_{len(out) + 1}", plain_rows])
    return {
        "t": texel_str(t),
        "input": inp,
        "map": out,
        "prefix": draw(st.sampled_from(PREFIXES)),
        "haps": haps,
        "primary_mode": primary,
    }
