"""Helpers for the FASTA checks: scratch files, index access, plain conversions."""

from __future__ import annotations

import io
import os
import shutil
import tempfile
from pathlib import Path

from tola.fasta.index import FastaIndex, FastaInfo, index_fasta_file
from tola.fasta.stream import FastaStream

from vf import conv, gen, ref
from vf.remap import SCRATCH_ROOT

_dir = None


def scratch() -> Path:
    """One private directory per worker process, removed at exit."""
    global _dir
    if _dir is None or _dir[0] != os.getpid():
        d = Path(tempfile.mkdtemp(prefix="vf-fa-", dir=SCRATCH_ROOT))
        _dir = (os.getpid(), d)
        import atexit

        atexit.register(shutil.rmtree, d, ignore_errors=True)
    return _dir[1]


def cleanup():
    """remove this process's scratch directory (pool workers do not run atexit handlers)"""
    global _dir
    if _dir is not None and _dir[0] == os.getpid():
        shutil.rmtree(_dir[1], ignore_errors=True)
        _dir = None


class TempFasta:
    def __init__(self, data: bytes, name="x.fa"):
        self.dir = Path(tempfile.mkdtemp(prefix="c-", dir=scratch()))
        self.path = self.dir / name
        self.path.write_bytes(data)

    def __enter__(self):
        return self.path

    def __exit__(self, *a):
        shutil.rmtree(self.dir, ignore_errors=True)


def info_tuple(info: FastaInfo):
    return (info.length, info.file_offset, info.residues_per_line, info.max_line_length)


def ref_index(data: bytes):
    """name -> FastaInfo computed by the reference reader (C03 does not depend on the indexer)."""
    out = {}
    for r in ref.read_fasta(data):
        width = r["width"] or 1
        linebytes = r["linebytes"] or (width + 1)
        out[r["name"]] = FastaInfo(len(r["seq"]), r["offset"], width, linebytes)
    return out


def stream_bytes(fai: FastaIndex, asm, line_length=60, gap_character=None) -> bytes:
    out = io.BytesIO()
    if gap_character is None:
        FastaStream(out, fai, line_length=line_length).write_assembly(asm)
    else:
        FastaStream(out, fai, line_length=line_length, gap_character=gap_character).write_assembly(asm)
    return out.getvalue()


def close(fai: FastaIndex):
    fh = fai.__dict__.get("fasta_fileandle")
    if fh is not None:
        fh.close()
