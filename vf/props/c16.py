"""C16 - --no-clobber never alters an existing file."""

import os

from hypothesis import strategies as st

from vf import gen, ref, remap
from vf.props.c03 import cli_cases as fasta_cli_cases
from vf.runner import Sub, Violation

ID = "C16"
LEVEL = "exploration"
RULE = (
    "case = (small tagged PretextView-model map + input, output format in {FASTA, AGP, TPF}, --write-log on/off, subset "
    "selector, sentinel styles). Taggings produce single- and multi-assembly outputs (haplotigs, contaminants, two haplotypes) "
    "so every kind of output file occurs (log, info yaml, assembly files, .agp companions of FASTA, chromosome list, chr "
    "report); --log-level default / INFO / WARNING / ERROR / DEBUG; a quarter of the cases pre-create some files as symbolic links. Per case: (1) fresh run into an empty directory learns the output set O and its bytes; (2) a drawn non-empty "
    "subset S of O (half of the cases a single file) is pre-created with sentinel bytes (short, empty, longer than the real "
    "file, or identical to it) and an old mtime, the run is repeated with --no-clobber: exit status must be non-zero, the error output must name "
    "a file of S, every file of S must keep its bytes and mtime; (3) with all of S pre-created (long sentinels) the default "
    "--clobber run must exit 0 and reproduce every file of O byte for byte. 1 in 8 cases runs in a subprocess for the real "
    "exit status. Non-trivial = S does not contain the log (the first file opened), or consists only of an .agp companion "
    "or CSV; distinct by SHA-1."
)
ASSUMPTIONS = [
    "cases whose fresh run fails (tagging / naming errors) are counted, not judged: the statement is about runs that succeed",
    "the FASTA input and its index cache live outside the output directory",
]


def run(args, sub):
    if sub:
        r = remap.run_cli_subprocess(args)
        return r.returncode, r.stderr + r.stdout
    r = remap.run_cli_inprocess(args)
    err = ""
    try:
        err = r.stderr
    except Exception:  # noqa: BLE001
        pass
    exc = "" if r.exception is None or isinstance(r.exception, SystemExit) else f"\n[exception {r.exception!r}]"
    return r.exit_code, (r.output or "") + err + exc


def snapshot(d):
    return {f.name: f.read_bytes() for f in sorted(d.iterdir())}


def wipe(d):
    for f in d.iterdir():
        f.unlink()


def sentinel(style, real, k):
    base = (f"SENTINEL-{k}-" * 4).encode()
    if style == "empty":
        return b""
    if style == "identical":
        return real  # the very bytes the run would write: still a collision under --no-clobber
    if style == "longer":
        return base * (len(real) // len(base) + 2)
    return base


def body(case, rec):
    fmt = case["fmt"]
    sub = case["subprocess"]
    d = remap.scratch_dir("vf-c16-")
    try:
        ind = d / "in"
        ind.mkdir()
        if fmt == "fa":
            src = ind / "asm.fa"
            src.write_bytes(gen.fasta_bytes(case["fasta"]))
        else:
            src = ind / "input.tpf"
            src.write_text(remap.input_text(case, "tpf"))
        mp = ind / "map.agp"
        mp.write_text(remap.map_agp_text(case))
        outd = d / "out"
        outd.mkdir()
        # (the version in the output name has one or two digits)
        ver = "12" if case.get("two_digit_version") else "2"
        out = outd / f"x.{ver}.{fmt}"
        args = ["-a", src, "-p", mp, "-o", out, "-c", case.get("prefix", "SUPER_")]
        if not case["write_log"]:
            args.append("--no-write-log")
        if case.get("log_level"):
            args += ["--log-level", case["log_level"]]
        code, msg = run(args, sub)
        if code != 0:
            rec.note(case, False, {"fresh_run_failed"})
            return
        O = snapshot(outd)
        names = sorted(O)
        twin = next((n for n in names if n.endswith(".curated.tpf")), None)
        if fmt == "tpf" and twin and case.get("input_named_like_output"):
            # second curation round: the input assembly file carries the name of one of this run's output files
            # (it lives in another directory); everything below is done with that input
            src2 = ind / twin
            src.rename(src2)
            src = src2
            args[1] = src
            wipe(outd)
            code, msg = run(args, sub)
            if code != 0:
                raise Violation(f"run failed when the input file is called {twin} (in another directory than the output): {msg[-200:]!r}")
            O = snapshot(outd)
            names = sorted(O)
        # the output set is learned from the run itself; one part of it is known independently: every curated assembly
        # file that holds a numbered chromosome has a chromosome list beside it
        import re

        pre = re.escape(case.get("prefix", "SUPER_"))
        for n in names:
            # every output file carries the root and version given with --output (x.<v>. or x.<haplotype>.<v>.)
            if not re.match(rf"x\.([^.]+\.)?{ver}\.(?!\d+\.)", n):
                raise Violation(f"output file {n} does not carry the root and version of --output x.{ver}.{fmt}: {names}")
        any_chr = False
        for n in names:
            if ".curated." in n and n.endswith("." + fmt):
                text = O[n].decode("utf-8", "replace")
                has_chr = re.search(rf"(^>|^|\t){pre}\d+(\t|$|\n)", text, re.M) is not None
                csv_name = n.split(".curated.")[0] + ".chromosome.list.csv"
                any_chr |= has_chr
                if has_chr and csv_name not in O:
                    raise Violation(f"{n} holds numbered chromosomes but the run wrote no {csv_name}: {names}")
        if any_chr and f"x.{ver}.chr_report.csv" not in O:
            raise Violation(f"curated assemblies hold numbered chromosomes but the run wrote no x.{ver}.chr_report.csv: {names}")
        if case["write_log"] and f"x.{ver}.log" not in O:
            raise Violation(f"--write-log run (log level {case.get('log_level')}) wrote no log file: {names}")
        classes = {f"fmt_{fmt}", "log" if case["write_log"] else "no_log", "subprocess" if sub else "inprocess"}
        if len([n for n in names if n.endswith("." + fmt)]) > 1:
            classes.add("multi_assembly")
        # subset
        sel = case["subset"]
        if case["single"]:
            S = [names[sel[0] % len(names)]]
        else:
            S = [n for i, n in enumerate(names) if sel[i % len(sel)] % 2] or [names[sel[0] % len(names)]]
        logname = f"x.{ver}.log"
        nt = logname not in S or all(n.endswith((".agp", ".csv")) and not n.endswith("." + fmt) or n.endswith(".csv") for n in S)
        if logname not in S:
            classes.add("subset_without_log")
        if len(S) == 1:
            classes.add("single_" + ("companion_agp" if fmt == "fa" and S[0].endswith(".agp") else S[0].split(".")[-1] if not S[0].endswith(".csv") else "csv"))
        rec.note(case, nt, classes)
        # ---- no-clobber
        wipe(outd)
        sent = {}
        links = {}
        for k, n in enumerate(S):
            style = case["styles"][k % len(case["styles"])]
            data = sentinel(style, O[n], k)
            if case.get("symlinks") and k % 2 == 0:
                # the pre-existing output is a symbolic link to a file kept elsewhere
                target = d / "elsewhere" / f"{k}-{n}"
                target.parent.mkdir(exist_ok=True)
                target.write_bytes(data)
                os.utime(target, (1_000_000_000 + k, 1_000_000_000 + k))
                (outd / n).symlink_to(target)
                links[n] = target
            else:
                (outd / n).write_bytes(data)
                os.utime(outd / n, (1_000_000_000 + k, 1_000_000_000 + k))
            sent[n] = (data, (outd / n).stat().st_mtime_ns)
        code, msg = run([*args, "--no-clobber"], sub)
        for n, (data, mt) in sent.items():
            p = outd / n
            if not p.exists():
                raise Violation(f"--no-clobber: pre-existing {n} was removed")
            if p.read_bytes() != data:
                raise Violation(f"--no-clobber: pre-existing {n} was altered (subset {S})")
            if p.stat().st_mtime_ns != mt:
                raise Violation(f"--no-clobber: pre-existing {n} was rewritten (mtime changed)")
            if n in links and not (p.is_symlink() and p.resolve() == links[n].resolve()):
                raise Violation(f"--no-clobber: pre-existing {n} was a symbolic link and has been replaced")
        if code == 0:
            raise Violation(f"--no-clobber: exit status 0 although {S} already existed")
        if not any(str(outd / n) in msg for n in S):
            raise Violation(f"--no-clobber: error output names none of the colliding files {S}: {msg[-300:]!r}")
        # ---- the same process runs the command again with --no-clobber --no-write-log over the files of a run that wrote
        # a log (its logging set-up is still in place, as after any cli() call): nothing of that run may change
        if case["write_log"] and not sub and case.get("rerun_over_own_outputs", True):
            wipe(outd)
            r_first = remap.run_cli_inprocess([str(a) for a in args], keep_logging_state=True)
            if r_first.exit_code == 0:
                before = {f.name: (f.read_bytes(), f.stat().st_mtime_ns) for f in sorted(outd.iterdir())}
                r_second = remap.run_cli_inprocess([str(a) for a in args if a != "--write-log"] + ["--no-write-log", "--no-clobber"])
                after = {f.name: (f.read_bytes(), f.stat().st_mtime_ns) for f in sorted(outd.iterdir())}
                for n, v in before.items():
                    if after.get(n) != v:
                        raise Violation(f"--no-clobber --no-write-log run in the same process over the files of an earlier run: {n} was altered")
                if r_second.exit_code == 0:
                    raise Violation("--no-clobber: exit status 0 although every output file of the earlier run existed")
            else:
                remap.run_cli_inprocess(["--help"])  # (resets the logging state)
        # ---- no-clobber with bystanders only: files in the output directory that this run does not write (reports of an
        # earlier curation of the same specimen, notes) - nothing collides, and they must be left exactly as they are
        cands = [f"x.{ver}.chr_report.csv", "README.txt", "x.1.log", f"x.{ver}.log.bak"] + [n.split(".curated.")[0] + ".chromosome.list.csv" for n in names if ".curated." in n]
        by = sorted({c for c in cands if c not in O})
        if case.get("bystanders", True) and by:
            wipe(outd)
            kept = {}
            for k, n in enumerate(by):
                (outd / n).write_bytes(sentinel("short", b"", k))
                os.utime(outd / n, (1_000_000_000 + k, 1_000_000_000 + k))
                kept[n] = ((outd / n).read_bytes(), (outd / n).stat().st_mtime_ns)
            run([*args, "--no-clobber"], sub)
            for n, (data, mt) in kept.items():
                p = outd / n
                if not p.exists():
                    raise Violation(f"--no-clobber: {n}, which existed before the run and is not one of its outputs {names}, was removed")
                if p.read_bytes() != data or p.stat().st_mtime_ns != mt:
                    raise Violation(f"--no-clobber: {n}, which existed before the run and is not one of its outputs, was altered")
            if any(n.endswith(".csv") for n in by):
                classes.add("bystander_csv")
        # ---- clobber (default)
        wipe(outd)
        for k, n in enumerate(S):
            (outd / n).write_bytes(sentinel("longer", O[n], k))
        code, msg = run(args, sub)
        if code != 0:
            raise Violation(f"default --clobber run failed with exit {code} when {S} existed: {msg[-300:]!r}")
        again = snapshot(outd)
        if sorted(again) != names:
            raise Violation(f"--clobber run wrote {sorted(again)}, fresh run wrote {names}")
        for n in names:
            if again[n] != O[n]:
                raise Violation(f"--clobber: {n} differs from a fresh run ({len(again[n])} vs {len(O[n])} bytes; pre-existing: {n in S})")
    finally:
        remap.rmtree(d)


@st.composite
def cases(draw):
    fmt = draw(st.sampled_from(["fa", "fa", "agp", "tpf"]))
    if fmt == "fa":
        base = draw(fasta_cli_cases())
        f = base["fasta"]
        c = draw(gen.tagged_case(two_haplotypes=False, fasta=f, small_texel=True, piece_tag_weight=4))
        c["fasta"] = f
    else:
        c = draw(gen.tagged_case(max_scaffolds=4, max_contigs=4, piece_tag_weight=4))
    c["fmt"] = fmt
    c["write_log"] = draw(st.integers(0, 3)) > 0
    c["single"] = draw(st.booleans())
    c["subset"] = draw(st.lists(st.integers(0, 1000), min_size=6, max_size=6))
    c["styles"] = draw(st.lists(st.sampled_from(["short", "empty", "longer", "identical"]), min_size=3, max_size=3))
    c["subprocess"] = draw(st.integers(0, 7)) == 0
    c["log_level"] = draw(st.sampled_from([None, None, "INFO", "WARNING", "ERROR", "DEBUG"]))
    c["symlinks"] = draw(st.integers(0, 3)) == 0
    c["input_named_like_output"] = draw(st.integers(0, 2)) == 0
    c["two_digit_version"] = draw(st.integers(0, 2)) == 0
    return c


def many_outputs_cases(tier, shard, nshards):
    """130 haplotypes, one painted chromosome each: 262 output files; subsets of 255 / 256 / 257 / all of them pre-exist"""
    for k, size in enumerate((255, 256, 257, 262)):
        if k % nshards == shard:
            yield {"haplotypes": 130, "existing": size}


def body_many_outputs(case, rec):
    n = case["haplotypes"]
    inp = [[f"Hap{i}_scaffold_{i}", [["F", f"Hap{i}_scaffold_{i}", 1, 400 + i, 1]]] for i in range(1, n + 1)]
    mp_rows = [[f"Scaffold_{i}", [["F", f"Hap{i}_scaffold_{i}", 1, 400 + i, 1, ["Painted", f"Hap{i}"]]]] for i in range(1, n + 1)]
    c = {"t": "1.000000", "input": inp, "map": mp_rows}
    rec.note(case, True, {f"existing_{case['existing']}"})
    d = remap.scratch_dir("vf-c16-")
    try:
        (d / "in").mkdir()
        src = d / "in" / "input.tpf"
        src.write_text(remap.input_text(c, "tpf"))
        mp = d / "in" / "map.agp"
        mp.write_text(remap.map_agp_text(c))
        outd = d / "out"
        outd.mkdir()
        args = ["-a", src, "-p", mp, "-o", outd / "x.2.tpf", "--no-write-log"]
        r = remap.run_cli_subprocess(args)
        if r.returncode != 0:
            raise Violation(f"fresh run with {n} haplotypes failed: {r.stderr[-300:]!r}")
        O = snapshot(outd)
        names = sorted(O)
        if len(names) < case["existing"]:
            raise Violation(f"expected at least {case['existing']} output files, the run wrote {len(names)}")
        S = names[: case["existing"]]
        wipe(outd)
        for k, nm in enumerate(S):
            (outd / nm).write_bytes(sentinel("short", b"", k))
        r = remap.run_cli_subprocess([*args, "--no-clobber"])
        for k, nm in enumerate(S):
            if not (outd / nm).exists() or (outd / nm).read_bytes() != sentinel("short", b"", k):
                raise Violation(f"--no-clobber with {len(S)} pre-existing files: {nm} was altered or removed")
        if r.returncode == 0:
            raise Violation(f"--no-clobber: exit status 0 of the real process although {len(S)} output files already existed")
        if not any(str(outd / nm) in r.stderr + r.stdout for nm in S):
            raise Violation(f"--no-clobber: error output names none of the {len(S)} colliding files: {(r.stderr + r.stdout)[-300:]!r}")
    finally:
        remap.rmtree(d)


SUBS = [
    Sub("many_outputs", kind="enum", cases=many_outputs_cases, body=body_many_outputs,
        budget={"quick": 4, "thorough": 4}, desc="a run with 262 output files (130 haplotypes), 255 / 256 / 257 / 262 of them pre-existing, real process exit status"),
    Sub("clobber", kind="hyp", strategy=cases, body=body, shrink=False,
        budget={"quick": 480, "thorough": 8000}, desc="fresh run, --no-clobber with a pre-existing subset, default --clobber over long sentinels"),
]
