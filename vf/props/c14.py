"""C14 - reversal and reverse-complement are involutions that commute with output."""

from pathlib import Path

from hypothesis import strategies as st

from tola.assembly.fragment import Fragment
from tola.assembly.indexed_assembly import IndexedAssembly
from tola.assembly.scaffold import Scaffold
from tola.fasta import simple
from tola.fasta.index import FastaIndex

from vf import conv, fa, gen, ref
from vf.runner import Sub, Violation, must

ID = "C14"
LEVEL = "exploration"
RULE = (
    "Sub-check table: ALL 256 byte values (complete): complement is an involution, equals the hand-typed IUPAC table on the "
    "30 IUPAC letters with case preserved, identity elsewhere. Sub-check bytes: Hypothesis byte strings over all 256 values: "
    "reverse_complement twice = identity and equals the reference reverse complement. Sub-check scaffold: scaffolds of 0-10 "
    "rows with strands +,-,unknown, tags, gaps of several types: double reversal restores the rows; one reversal keeps length, "
    "gap rows, (name,start,end,tags) in inverted order and negates every strand; OverlapResult.to_scaffold with a minus bait = "
    "reversal of the plus-bait result. Sub-check stream: FASTA x scaffold with oriented rows x buffer size: "
    "stream(reverse(s)) = reference reverse complement of stream(s). Non-trivial = mixed-strand scaffold with >= 1 gap and "
    ">= 3 rows (scaffold), a minus fragment spanning > 1 buffer (stream), a string containing a non-IUPAC byte and an IUPAC "
    "letter (bytes); distinct by SHA-1."
)
ASSUMPTIONS = [
    "the streaming law is stated for oriented rows (+/-); an unknown-strand row stays unknown under reversal and is written forward both times",
]


def table_cases(tier, shard, nshards):
    if shard == 0:
        yield {"bytes": "all256"}


def body_table(case, rec):
    rec.note(case, True, ())
    for c in range(256):
        one = bytes([c])
        got = must(simple.reverse_complement, one, what=f"reverse_complement({one!r})")
        want = bytes([ref.COMPLEMENT.get(c, c)])
        rec.count("byte_values")
        if got != want:
            raise Violation(f"complement of byte {c} ({one!r}) is {got!r}, IUPAC table says {want!r}")
        back = simple.reverse_complement(got)
        if back != one:
            raise Violation(f"complement is not an involution on byte {c}: {one!r} -> {got!r} -> {back!r}")
    if len(ref.COMPLEMENT) != 30:
        raise AssertionError("reference table must have 30 letters")


def body_bytes(case, rec):
    s = case["s"].encode("latin-1")
    has_iupac = any(c in ref.COMPLEMENT for c in s)
    has_other = any(c not in ref.COMPLEMENT for c in s)
    rec.note(case, has_iupac and has_other, ())
    once = must(simple.reverse_complement, s, what="reverse_complement")
    if once != ref.revcomp(s):
        raise Violation(f"reverse_complement({s[:40]!r}) = {once[:40]!r}, reference {ref.revcomp(s)[:40]!r}")
    if simple.reverse_complement(once) != s:
        raise Violation(f"reverse_complement twice changed {s[:40]!r}")
    import io

    if simple.revcomp_bytes_io(io.BytesIO(s)).getvalue() != once:
        raise Violation("revcomp_bytes_io differs from reverse_complement")


def body_scaffold(case, rec):
    rows = case["rows"]
    strands = {r[4] for r in rows if r[0] == "F"}
    nt = len(rows) >= 3 and len(strands) > 1 and any(r[0] == "G" for r in rows)
    rec.note(case, nt, {"unknown_strand"} if 0 in strands else ())
    s = Scaffold("s", conv.mk_rows(rows), original_name="Scaffold_9", original_tags={"Painted"})
    r1 = must(s.reverse, what="Scaffold.reverse")
    p1 = conv.plain_rows(r1.rows)
    want = []
    for r in reversed(rows):
        want.append([r[0], r[1], r[2], r[3], -r[4], *r[5:]] if r[0] == "F" else list(r))
    want = [w if w[0] == "G" or len(w) < 6 or w[5] else w[:5] for w in want]
    if p1 != want:
        raise Violation(f"one reversal: got {p1}, expected inverted order with negated strands {want}")
    if r1.length != s.length:
        raise Violation("reversal changed the length")
    if conv.plain_rows(s.rows) != [r if r[0] == "G" or len(r) < 6 or r[5] else r[:5] for r in rows]:
        raise Violation("reversal modified the original scaffold")
    r2 = must(r1.reverse, what="Scaffold.reverse")
    if conv.plain_rows(r2.rows) != conv.plain_rows(s.rows):
        raise Violation(f"double reversal: {conv.plain_rows(r2.rows)} != original {conv.plain_rows(s.rows)}")
    if (r1.name, r1.original_name, r1.original_tags) != (s.name, s.original_name, s.original_tags):
        raise Violation("reversal lost name / original_name / original_tags")
    # history: reverse, modify the scaffold, reverse again - the second reversal must reflect the current rows
    extra = conv.mk_rows(case.get("extra", []))
    if extra:
        from tola.assembly.gap import Gap

        other = Scaffold("o", extra)
        def check_now(what):
            now = conv.plain_rows(s.rows)
            rev_now = must(s.reverse, what=f"Scaffold.reverse after {what}")
            again = conv.plain_rows(rev_now.rows)
            want2 = [[r[0], r[1], r[2], r[3], -r[4], *r[5:]] if r[0] == "F" else list(r) for r in reversed(now)]
            if again != want2:
                raise Violation(f"reversal after {what} does not reflect the current rows: {again} vs {want2}")
            # (the length was read before the scaffold grew)
            if not (rev_now.length == s.length == ref.rows_len(now)):
                raise Violation(f"after {what}: reversal does not preserve the length: original reports {s.length}, reversed {rev_now.length}, rows total {ref.rows_len(now)}")

        s.append_scaffold(other, Gap(200, "scaffold") if case.get("with_gap") else None)
        check_now("append_scaffold")
        s.add_row(conv.mk_row(["F", "tail", 5, 9, -1]))
        check_now("add_row")
        s.rows.extend(conv.mk_rows([["G", 7, "scaffold"], ["F", "tail2", 1, 2, 1]]))
        check_now("extending .rows")
    # OverlapResult.to_scaffold: minus bait = reversal of plus bait
    if any(r[0] == "F" for r in rows):
        asm = IndexedAssembly("a", scaffolds=[Scaffold("s", conv.mk_rows(rows))])
        total = ref.rows_len(rows)
        plus = asm.find_overlaps(Fragment("s", 1, total, 1))
        minus = asm.find_overlaps(Fragment("s", 1, total, -1))
        if plus is not None:
            a = conv.plain_rows(must(plus.to_scaffold, what="to_scaffold").reverse().rows)
            b = conv.plain_rows(must(minus.to_scaffold, what="to_scaffold").rows)
            if a != b:
                raise Violation(f"to_scaffold with a minus bait {b} is not the reversal of the plus-bait result {a}")


def body_stream(case, rec):
    data = gen.fasta_bytes(case["fasta"])
    rows = case["rows"]
    buf = case["buffer"]
    nt = any(r[0] == "F" and r[4] == -1 and r[3] - r[2] + 1 > buf for r in rows)
    rec.note(case, nt, ())
    sname = case.get("scaffold_name", "s").encode()
    s = Scaffold(case.get("scaffold_name", "s"), conv.mk_rows(rows))
    import os

    relative = bool(case.get("relative_path_chdir")) and any(r[0] == "F" for r in rows)
    cwd = os.getcwd()
    with fa.TempFasta(data) as path, fa.TempFasta(bytes(reversed(data)) if relative else b"") as elsewhere:
        if relative:
            # the index is created from a RELATIVE path; between the two streams the working directory changes to a
            # directory that holds another file of the same name (the index object already has its file open)
            os.chdir(path.parent)
            fai = FastaIndex(Path(path.name), buf)
        else:
            fai = FastaIndex(path, buf)
        fai.index = fa.ref_index(data)
        try:
            from tola.assembly.assembly import Assembly

            fwd = must(fa.stream_bytes, fai, Assembly("a", scaffolds=[s]), 60, what="stream")
            if relative:
                os.chdir(elsewhere.parent)
            rev = must(fa.stream_bytes, fai, Assembly("a", scaffolds=[s.reverse()]), 60, what="stream reversed")
        finally:
            os.chdir(cwd)
            fa.close(fai)

    def seq_of(b):
        lines = b.split(b"\n")
        if lines[0] != b">" + sname:
            raise Violation(f"bad header {lines[0]!r}")
        return b"".join(lines[1:])

    if seq_of(rev) != ref.revcomp(seq_of(fwd)):
        raise Violation(f"stream(reverse(s)) != reverse complement of stream(s): {seq_of(rev)[:50]!r} vs {ref.revcomp(seq_of(fwd))[:50]!r}")
    if rev != b">" + sname + b"\n" + ref.wrap(ref.revcomp(seq_of(fwd)), 60):
        raise Violation("reversed stream is not wrapped like the forward one")


def large_cases(tier, shard, nshards):
    sizes = [65535, 65536, 65537, 2**20 - 1, 2**20, 2**20 + 1, 2**21 + 12345, 3 * 2**20]
    for k, n in enumerate(sizes):
        if k % nshards == shard:
            yield {"size": n, "buffer": [4_000_000, 2**20, 250_000][k % 3]}


def body_large(case, rec):
    """reverse complement of inputs around 64 KiB / 1 MiB / 2 MiB, directly and streamed as one minus-strand fragment"""
    n = case["size"]
    rec.note(case, True, ())
    pattern = b"ACGTRYKMacgtnNBDHVswSW-*xU"
    seq = (pattern * (n // len(pattern) + 1))[:n]
    table = bytes(ref.COMPLEMENT.get(c, c) for c in range(256))
    want = seq[::-1].translate(table)
    got = must(simple.reverse_complement, seq, what=f"reverse_complement({n} bytes)")
    if got != want:
        k = next((i for i, (x, y) in enumerate(zip(got, want)) if x != y), min(len(got), len(want)))
        raise Violation(f"reverse_complement of {n} bytes: {len(got)} bytes returned, first difference at {k}")
    if must(simple.reverse_complement, got, what="reverse_complement") != seq:
        raise Violation(f"reverse_complement twice changed an input of {n} bytes")
    data = b">big\n" + b"".join(seq[i : i + 80] + b"\n" for i in range(0, n, 80))
    with fa.TempFasta(data) as path:
        fai = FastaIndex(path, case["buffer"])
        fai.index = fa.ref_index(data)
        try:
            from tola.assembly.assembly import Assembly

            s = Scaffold("s", [Fragment("big", 1, n, -1)])
            out = must(fa.stream_bytes, fai, Assembly("a", scaffolds=[s]), 60, what="streaming a large minus-strand fragment")
        finally:
            fa.close(fai)
    if out != b">s\n" + ref.wrap(want, 60):
        raise Violation(f"streaming a minus-strand fragment of {n} residues with buffer {case['buffer']} is not its reverse complement")


TAGS = ["Painted", "Cut", "Hap1", "X", "Unloc"]


@st.composite
def scaffold_cases(draw):
    rows = []
    for k in range(draw(st.integers(0, 10))):
        if draw(st.integers(0, 3)) == 0:
            rows.append(["G", draw(st.integers(0, 300)), draw(st.sampled_from(["scaffold", "contig", "centromere"]))])
        else:
            a = draw(st.integers(1, 10**6))
            tags = draw(st.lists(st.sampled_from(TAGS), max_size=3, unique=True))
            rows.append(["F", draw(st.sampled_from(["c1", "c2", f"ctg{k}"])), a, a + draw(st.integers(0, 10**5)), draw(st.sampled_from([1, -1, 0])), tags])
    extra = []
    for k in range(draw(st.integers(0, 3))):
        a = draw(st.integers(1, 1000))
        extra.append(["F", f"x{k}", a, a + draw(st.integers(0, 50)), draw(st.sampled_from([1, -1, 0]))])
    return {"rows": rows, "extra": extra, "with_gap": draw(st.booleans())}


@st.composite
def stream_cases(draw):
    f = draw(gen.fasta_file(max_records=3, min_len=1))
    recs = [(r[0], len(r[2])) for r in f["records"]]
    rows = []
    for _ in range(draw(st.integers(1, 6))):
        if draw(st.integers(0, 3)) == 0:
            rows.append(["G", draw(st.sampled_from([0, 1, 5, 61, 200])), "scaffold"])
        else:
            name, n = draw(st.sampled_from(recs))
            a = draw(st.integers(1, n))
            rows.append(["F", name, a, draw(st.integers(a, n)), draw(st.sampled_from([1, -1]))])
    case = {"fasta": f, "rows": rows, "buffer": draw(st.sampled_from([1, 2, 3, 7, 11, 64, 10**6]))}
    if draw(st.integers(0, 5)) == 0:
        # the output scaffold is named like another input record of the same length and holds one whole record
        src = f["records"][0]
        if len(src[2]) >= 2:
            src[3], src[4] = 60, "\n"
            twin = [f"twin{len(f['records']) + 1}", "", src[2][1:] + src[2][0], 60, "\n"]
            f["records"].append(twin)
            case["rows"] = [["F", src[0], 1, len(src[2]), 1]]
            case["scaffold_name"] = twin[0]
    if draw(st.integers(0, 5)) == 0:
        case["relative_path_chdir"] = True
    return case


SUBS = [
    Sub("table", kind="enum", cases=table_cases, body=body_table, exhaustive=True, workers=1,
        budget={"quick": 1, "thorough": 1}, desc="complement table over all 256 byte values vs hand-typed IUPAC table"),
    Sub("bytes", kind="hyp", strategy=lambda: st.builds(lambda s: {"s": s}, st.one_of(
            st.text(alphabet=st.characters(min_codepoint=0, max_codepoint=255), max_size=80),
            st.text(alphabet="ACGTRYMKSWHBVDNacgtrymkswhbvdn-*xU", max_size=200))),
        body=body_bytes, budget={"quick": 8000, "thorough": 100000}, desc="reverse_complement twice = identity, equals reference"),
    Sub("large", kind="enum", cases=large_cases, body=body_large,
        budget={"quick": 8, "thorough": 8}, desc="byte strings and minus-strand fragments of 64 KiB / 1 MiB / 2 MiB +-1 (block-wise code paths)"),
    Sub("scaffold", kind="hyp", strategy=scaffold_cases, body=body_scaffold,
        budget={"quick": 8000, "thorough": 150000}, desc="Scaffold.reverse laws, OverlapResult.to_scaffold with minus bait"),
    Sub("stream", kind="hyp", strategy=stream_cases, body=body_stream,
        budget={"quick": 3200, "thorough": 60000}, desc="stream(reverse(s)) = reverse complement of stream(s)"),
]
