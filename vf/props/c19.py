"""C19 - overlap QC reports exactly the overlapping contig pairs."""

import itertools
import re

from hypothesis import strategies as st

from tola.assembly.fragment import Fragment

from vf import conv, remap
from vf.runner import Sub, Violation, must

ID = "C19"
LEVEL = "exploration"
RULE = (
    "Sub-check predicates: ALL ordered pairs of intervals with 1 <= start <= end <= N (N=12 quick, 20 thorough), same and "
    "different names, all strand pairs, checked against set arithmetic on range() (complete for that domain). Sub-check scan: "
    "Hypothesis-drawn assemblies of 1-4 scaffolds whose fragments come from few names and a small coordinate range so that "
    "duplicates, nesting, abutting and disjoint intervals all occur; Assembly.find_overlapping_fragments vs brute-force pair "
    "scan (each unordered pair once, None when empty). Sub-check cli: the same through asm-format --qc-overlaps, parsing the "
    "'Overlap:' blocks on stderr. Non-trivial = an assembly with >= 1 overlapping pair AND >= 1 same-name non-overlapping pair "
    "(scan/cli); a same-name pair (predicates); distinct by SHA-1."
)
ASSUMPTIONS = ["fragments are identified by position (scaffold index, row index); equal intervals in two rows are two fragments"]


def check_pair(n1, a1, b1, s1, n2, a2, b2, s2):
    f = Fragment(n1, a1, b1, s1)
    g = Fragment(n2, a2, b2, s2)
    same = n1 == n2
    inter = len(range(max(a1, a2), min(b1, b2) + 1)) if same else 0
    ov = must(f.overlaps, g, what="overlaps")
    if ov is not (inter > 0):
        raise Violation(f"overlaps({f},{g}) = {ov!r}, intersection has {inter} bases")
    if must(g.overlaps, f, what="overlaps") is not ov:
        raise Violation(f"overlaps not symmetric for {f},{g}")
    ol = must(f.overlap_length, g, what="overlap_length")
    if ol != (inter if inter > 0 else None):
        raise Violation(f"overlap_length({f},{g}) = {ol!r}, intersection has {inter} bases")
    if must(g.overlap_length, f, what="overlap_length") != ol:
        raise Violation(f"overlap_length not symmetric for {f},{g}")
    gb = must(f.gap_between, g, what="gap_between")
    if must(g.gap_between, f, what="gap_between") != gb:
        raise Violation(f"gap_between not symmetric for {f},{g}")
    ab = must(f.abuts, g, what="abuts")
    if must(g.abuts, f, what="abuts") is not ab:
        raise Violation(f"abuts not symmetric for {f},{g}")
    if not same:
        if ov or ab or gb is not None or ol is not None:
            raise Violation(f"different names {f},{g}: overlaps={ov} abuts={ab} gap_between={gb} overlap_length={ol}")
        return
    # same name: true gap between the intervals
    if inter > 0:
        true_gap = None
    else:
        true_gap = max(a1, a2) - min(b1, b2) - 1
    if ab is not (true_gap == 0):
        raise Violation(f"abuts({f},{g}) = {ab!r} but the gap between them is {true_gap}")
    if inter == 0 and gb != true_gap:
        raise Violation(f"gap_between({f},{g}) = {gb!r}, expected {true_gap}")
    if ab is not (gb == 0):
        raise Violation(f"abuts={ab!r} but gap_between={gb!r} for {f},{g}")
    states = [bool(ov), bool(ab), gb is not None and gb > 0]
    if sum(states) != 1:
        raise Violation(f"exactly one of overlap/abut/positive gap must hold for {f},{g}: {states} (gap_between={gb!r})")


def predicate_cases(tier, shard, nshards):
    n = 12 if tier == "quick" else 20
    ivs = [(a, b) for a in range(1, n + 1) for b in range(a, n + 1)]
    k = 0
    for a1, b1 in ivs:
        k += 1
        if k % nshards != shard:
            continue
        yield {"first": [a1, b1], "n": n}


def body_predicates(case, rec):
    a1, b1 = case["first"]
    n = case["n"]
    for a2 in range(1, n + 1):
        for b2 in range(a2, n + 1):
            for s1, s2 in ((1, 1), (1, -1), (-1, 1), (-1, -1), (0, 1)):
                check_pair("c", a1, b1, s1, "c", a2, b2, s2)
            check_pair("c", a1, b1, 1, "d", a2, b2, 1)
            rec.count("interval_pairs", 6)
    rec.note(case, True, {"same_and_different_names"})


def brute_pairs(scaffolds):
    frags = []
    for si, (_n, rows) in enumerate(scaffolds):
        for ri, r in enumerate(rows):
            if r[0] == "F":
                frags.append((si, ri, r))
    pairs = set()
    same_name_disjoint = 0
    for (i, x), (j, y) in itertools.combinations(enumerate(frags), 2):
        if x[2][1] == y[2][1]:
            if max(x[2][2], y[2][2]) <= min(x[2][3], y[2][3]):
                pairs.add((x[:2], y[:2]))
            else:
                same_name_disjoint += 1
    return frags, pairs, same_name_disjoint


def body_scan(case, rec):
    scaffolds = case["scaffolds"]
    asm = conv.mk_assembly("a", scaffolds)
    if case.get("pickled"):
        # some scaffolds come from a pickle (a cache, a worker process): equal names are then distinct string objects
        import pickle

        for k in case["pickled"]:
            if k < len(asm.scaffolds):
                asm.scaffolds[k] = pickle.loads(pickle.dumps(asm.scaffolds[k]))
    _frags, want, disjoint = brute_pairs(scaffolds)
    if case.get("alias"):
        return body_scan_aliased(case, rec, asm, want, disjoint)
    pos = {}
    for si, s in enumerate(asm.scaffolds):
        for ri, row in enumerate(s.rows):
            pos[id(row)] = (si, ri)
    rec.note(case, bool(want) and disjoint > 0, {"has_overlaps"} if want else {"no_overlaps"})
    got = must(asm.find_overlapping_fragments, what="find_overlapping_fragments")
    if not want:
        if got is not None:
            raise Violation(f"no pair overlaps but the scan returned {got}")
        return
    if got is None:
        raise Violation(f"{len(want)} overlapping pairs exist, scan returned None")
    seen = []
    for (f1, s1), (f2, s2) in got:
        p1, p2 = pos[id(f1)], pos[id(f2)]
        if asm.scaffolds[p1[0]] is not s1 or asm.scaffolds[p2[0]] is not s2:
            raise Violation("scan reported a fragment with the wrong scaffold")
        seen.append(tuple(sorted((p1, p2))))
    if len(seen) != len(set(seen)):
        raise Violation(f"a pair was reported more than once: {seen}")
    if set(seen) != want:
        raise Violation(f"scan reported {sorted(seen)}, brute force finds {sorted(want)}")
    second_scan(case, asm)


def body_scan_aliased(case, rec, asm, want, disjoint):
    """
    One Fragment OBJECT sits in two rows (a contig piece used twice, as when rows sliced out of an input scaffold are
    placed twice): rows cannot be told apart by identity, so pairs are compared as a multiset of
    ((scaffold index, contig, start, end), (scaffold index, contig, start, end)).
    """
    from collections import Counter

    (si, ri), (sj, rj) = case["alias"]
    asm.scaffolds[sj].rows[rj] = asm.scaffolds[si].rows[ri]
    scaffolds = case["scaffolds"]

    def key(si_, r):
        return (si_, r[1], r[2], r[3])

    want_ms = Counter(tuple(sorted((key(a[0], scaffolds[a[0]][1][a[1]]), key(b[0], scaffolds[b[0]][1][b[1]])))) for a, b in want)
    rec.note(case, bool(want) and disjoint > 0, {"same_fragment_object_in_two_rows"})
    got = must(asm.find_overlapping_fragments, what="find_overlapping_fragments") or []
    sidx = {id(sc): k for k, sc in enumerate(asm.scaffolds)}
    got_ms = Counter()
    for (f1, s1), (f2, s2) in got:
        if id(s1) not in sidx or id(s2) not in sidx or not any(r is f1 for r in s1.rows) or not any(r is f2 for r in s2.rows):
            raise Violation("scan reported a fragment with a scaffold that does not hold it")
        got_ms[tuple(sorted(((sidx[id(s1)], f1.name, f1.start, f1.end), (sidx[id(s2)], f2.name, f2.start, f2.end))))] += 1
    if got_ms != want_ms:
        raise Violation(f"one Fragment object used in two rows: scan reported {sorted(got_ms.items())}, brute force finds {sorted(want_ms.items())}")


def second_scan(case, asm):
    """a row is replaced in place (as trimming and reversal do) and the scan is repeated on the same assembly object"""
    rep = case.get("replace")
    if not rep:
        return
    scaffolds = [[n, [list(r) for r in rows]] for n, rows in case["scaffolds"]]
    frs = [(si, ri) for si, (_n, rows) in enumerate(scaffolds) for ri, r in enumerate(rows) if r[0] == "F"]
    if not frs:
        return
    si, ri = frs[rep[0] % len(frs)]
    old = scaffolds[si][1][ri]
    new = ["F", old[1], rep[1], rep[1] + rep[2], old[4]]
    scaffolds[si][1][ri] = new
    asm.scaffolds[si].rows[ri] = conv.mk_row(new)
    _f, want2, _d = brute_pairs(scaffolds)
    pos = {id(row): (a, b) for a, sc in enumerate(asm.scaffolds) for b, row in enumerate(sc.rows)}
    got2 = must(asm.find_overlapping_fragments, what="find_overlapping_fragments (second scan)") or []
    for (f1, _s1), (f2, _s2) in got2:
        if id(f1) not in pos or id(f2) not in pos:
            raise Violation(f"after a row was replaced in place the second scan reports a fragment that is no longer in the assembly: {f1} / {f2}")
    seen2 = {tuple(sorted((pos[id(f1)], pos[id(f2)]))) for (f1, _s1), (f2, _s2) in got2}
    if seen2 != want2 or len(got2) != len(want2):
        raise Violation(f"after a row was replaced in place the second scan reports {sorted(seen2)}, brute force finds {sorted(want2)}")


def body_cli(case, rec):
    scaffolds = case["scaffolds"]
    _frags, want, disjoint = brute_pairs(scaffolds)
    rec.note(case, bool(want) and disjoint > 0, {"has_overlaps"} if want else {"no_overlaps"})
    text = remap.input_text({"input": scaffolds}, "agp")
    d = remap.scratch_dir("vf-c19-")
    try:
        f = d / "in.agp"
        f.write_text(text)
        res = remap.run_cli_subprocess([f, "--qc-overlaps", "-o", d / "out.agp"], script="asm_format")
        if res.returncode != 0:
            raise Violation(f"asm-format --qc-overlaps failed: {res.stderr[-300:]}")
        blocks = re.findall(r"\nOverlap:\n(\S+) (\S+):(\d+)-(\d+)\([+.-]\)\n(\S+) (\S+):(\d+)-(\d+)\([+.-]\)", res.stderr)
        got = sorted(tuple(sorted(((b[0], b[1], int(b[2]), int(b[3])), (b[4], b[5], int(b[6]), int(b[7]))))) for b in blocks)
        exp = []
        for (s1, r1), (s2, r2) in want:
            x, y = scaffolds[s1][1][r1], scaffolds[s2][1][r2]
            exp.append(tuple(sorted(((scaffolds[s1][0], x[1], x[2], x[3]), (scaffolds[s2][0], y[1], y[2], y[3])))))
        if got != sorted(exp):
            raise Violation(f"asm-format reported {got}, brute force finds {sorted(exp)}")
        if want and "Overlaps detected in assembly" not in res.stderr:
            raise Violation("missing 'Overlaps detected' header on stderr")
        # the same assembly on standard input
        res3 = remap.run_cli_subprocess(["--qc-overlaps", "-o", d / "out3.agp"], script="asm_format", stdin=text)
        if res3.returncode != 0:
            raise Violation(f"asm-format --qc-overlaps reading STDIN failed: {res3.stderr[-300:]}")
        if res3.stderr.count("\nOverlap:\n") != len(want):
            raise Violation(f"asm-format --qc-overlaps on STDIN reported {res3.stderr.count(chr(10) + 'Overlap:' + chr(10))} pairs, brute force finds {len(want)}")
        # the same file given twice under one stem (v1/in.agp v2/in.agp): every file's overlaps are reported
        if want:
            (d / "v1").mkdir()
            (d / "v2").mkdir()
            (d / "v1" / "in.agp").write_text(text)
            (d / "v2" / "in.agp").write_text(text)
            res2 = remap.run_cli_subprocess([d / "v1" / "in.agp", d / "v2" / "in.agp", "--qc-overlaps", "-o", d / "out2.agp"], script="asm_format")
            if res2.returncode != 0:
                raise Violation(f"asm-format with two input files failed: {res2.stderr[-300:]}")
            n2 = res2.stderr.count("\nOverlap:\n")
            if n2 != 2 * len(want):
                raise Violation(f"two input files with {len(want)} overlapping pairs each: {n2} pairs reported")
    finally:
        remap.rmtree(d)


@st.composite
def assemblies(draw):
    n_sc = draw(st.integers(1, 4))
    # the last two pools hold different contig names whose natural-sort keys are equal
    names = draw(st.sampled_from([["c"], ["c", "d"], ["c", "d", "e"], ["ctg1", "ctg001", "ctg01"], ["chrI", "chr1", "SUPER_2", "SUPER_II"]]))
    hi = draw(st.sampled_from([6, 12, 30]))
    scaffolds = []
    for si in range(n_sc):
        rows = []
        for _ in range(draw(st.integers(0 if si else 1, 5))):
            if rows and draw(st.integers(0, 3)) == 0:
                rows.append(["G", draw(st.integers(1, 9)), "scaffold"])
            a = draw(st.integers(1, hi))
            b = draw(st.integers(a, min(hi, a + draw(st.sampled_from([0, 1, 3, hi])))))
            rows.append(["F", draw(st.sampled_from(names)), a, b, draw(st.sampled_from([1, -1, 0]))])
        if rows:
            scaffolds.append([f"s{si + 1}", rows])
    if len(scaffolds) >= 3 and draw(st.integers(0, 3)) == 0:
        scaffolds[2][0] = scaffolds[0][0]  # an object name that re-appears after another object (legal, interleaved layout)
    if draw(st.integers(0, 4)) == 0:
        # chromosome-scale coordinates (a fragment may span several Mbp and contain another one far from both its ends)
        f = draw(st.sampled_from([10**5, 2**19, 10**6, 2**33]))
        for _n, rows in scaffolds:
            for r in rows:
                if r[0] == "F":
                    r[2], r[3] = (r[2] - 1) * f + 1, r[3] * f
    case = {"scaffolds": scaffolds, "replace": [draw(st.integers(0, 50)), draw(st.integers(1, hi)), draw(st.integers(0, 3))] if draw(st.booleans()) else None}
    frs = [(si, ri) for si, (_n, rows) in enumerate(scaffolds) for ri, r in enumerate(rows) if r[0] == "F"]
    if frs and draw(st.integers(0, 5)) == 0:
        # the same Fragment object is placed a second time (same or another scaffold)
        si, ri = draw(st.sampled_from(frs))
        sj = draw(st.integers(0, len(scaffolds) - 1))
        scaffolds[sj][1].append(list(scaffolds[si][1][ri]))
        case["alias"] = [[si, ri], [sj, len(scaffolds[sj][1]) - 1]]
        case["replace"] = None
    elif draw(st.integers(0, 5)) == 0:
        case["pickled"] = draw(st.lists(st.integers(0, len(scaffolds) - 1), min_size=1, max_size=2, unique=True))
        case["replace"] = None
    return case


SUBS = [
    Sub("predicates", kind="enum", cases=predicate_cases, body=body_predicates, exhaustive=True,
        budget={"quick": 1, "thorough": 1}, desc="all interval pairs in 1..12 (quick) / 1..20 (thorough) x strands x same/different names"),
    Sub("scan", kind="hyp", strategy=assemblies, body=body_scan,
        budget={"quick": 8000, "thorough": 100000}, desc="find_overlapping_fragments vs brute-force pair scan"),
    Sub("cli", kind="hyp", strategy=assemblies, body=body_cli, shrink=False,
        budget={"quick": 160, "thorough": 2000}, desc="asm-format --qc-overlaps stderr blocks vs brute force (subprocess)"),
]
