"""C07 - every join carries a gap and retained neighbours keep their input gap."""

from hypothesis import strategies as st

from vf import conv, gen, ref, remap
from vf.runner import Sub, Violation, must

ID = "C07"
LEVEL = "exploration"
RULE = (
    "case = (texel size, input assembly, Pretext map). Sub-check model: clean PretextView-model maps (as C02) weighted "
    "towards unpainted scaffolds whose trailing contigs are shorter than the final partial texel (so they are left over and "
    "re-added), scaffolds absent from the map and contigs cut and re-joined; both sentences of the statement are checked. "
    "Sub-check perturbed: perturbed maps (as C01) that complete; only the first sentence (direct adjacency implies input "
    "adjacency; no terminal gap). Oracle: neighbour table of the input (facing contig ends -> rows between) against every "
    "pair of consecutive output fragments and every gap run. Non-trivial = run completed AND (a contig hit by no bait was "
    "re-added next to other rows of its scaffold, or an output junction joins non-neighbours); distinct by SHA-1."
)
ASSUMPTIONS = [
    "between two contigs of the input there are 0, 1 or (sub-check model) 2 gap rows; a third of the model inputs start / end with a gap row (FASTA with terminal N runs), which the output must not",
    "abutting collinear sub-fragments of one cut contig may be directly adjacent (they were contiguous sequence in the input)",
    "join gap = Gap(200, 'scaffold'), the value pretext-to-asm configures",
]

JOIN = ["G", 200, "scaffold"]


def same_contig_abutting(x, y):
    if x[1] != y[1] or x[4] != y[4]:
        return False
    return x[3] + 1 == y[2] if x[4] >= 0 else y[3] + 1 == x[2]


def oracle(case, outs, model, classes):
    neigh = ref.neighbour_table(case["input"])
    for name, rows in outs:
        if not rows:
            raise Violation(f"output scaffold {name} is empty")
        if rows[0][0] == "G" or rows[-1][0] == "G":
            raise Violation(f"output scaffold {name} begins or ends with a gap: {rows[:2]} ... {rows[-2:]}")
        for adj, i, j, between in ref.adjacencies(rows):
            x, y = rows[i], rows[j]
            known = adj in neigh
            if not known:
                classes.add("junction_between_non_neighbours")
            if not between:
                if known and not neigh[adj]:
                    continue
                if same_contig_abutting(x, y):
                    classes.add("abutting_subfragments_adjacent")
                    continue
                raise Violation(
                    f"scaffold {name}: {x} and {y} are directly adjacent (no gap) but those contig ends were "
                    f"{'separated by ' + str(neigh[adj]) if known else 'not neighbours'} in the input"
                )
            if not model:
                continue
            if between == [JOIN]:
                classes.add("join_gap")
                continue
            if known and neigh[adj]:
                # the input's gap rows between these neighbours (all of them, or a contiguous part)
                want = neigh[adj]
                n = len(between)
                # (read in either direction: a reversed piece shows them in reverse order)
                if any(w[k : k + n] == between for w in (want, want[::-1]) for k in range(len(w) - n + 1)):
                    classes.add("input_gap_retained")
                    if len(want) > 1:
                        classes.add("input_with_consecutive_gap_rows")
                    continue
            raise Violation(
                f"scaffold {name}: gap rows {between} between {x} and {y} are neither the join gap nor the input gap(s) "
                f"{neigh.get(adj)} of these neighbours"
            )


def leftovers(case):
    """input contigs hit by no bait"""
    from vf.props.c01 import bait_hits

    return [k for k, v in bait_hits(case).items() if v == 0]


def run(case, rec, model):
    classes = set()
    if model:
        res = must(remap.run_api, case, what="remapping a PretextView-model map")
    else:
        try:
            res = remap.run_api(case)
        except Exception as e:  # noqa: BLE001  -- perturbed maps may end in an error
            rec.note(case, False, {"error", "error_" + type(e).__name__})
            return
    outs = [[s.name, conv.plain_rows(s.rows, with_tags=False)] for _k, s in res.all_scaffolds()]
    left = leftovers(case)
    if left:
        classes.add("leftover_contigs")
        in_multi = {r[1:4] and tuple(r[1:4]) for n, rows in outs if sum(1 for r in rows if r[0] == "F") > 1 for r in rows if r[0] == "F"}
        if any(k in in_multi for k in left):
            classes.add("leftover_joined_to_other_rows")
    if case.get("gap_only_pieces"):
        classes.add(f"gap_only_pieces_{case['gap_only_pieces']}")
    try:
        oracle(case, outs, model, classes)
    finally:
        rec.note(case, bool(classes & {"leftover_joined_to_other_rows", "junction_between_non_neighbours"}) or case.get("gap_only_pieces", 0) >= 2, classes)


def body_model(case, rec):
    run(case, rec, True)


def body_perturbed(case, rec):
    run(case, rec, False)


def body_tagged(case, rec):
    """tagged PretextView maps (haplotypes, Target mode, piece tags): both sentences, over every output assembly"""
    classes = {"target_mode"} if any("Target" in r[5] for _n, rows in case["map"] for r in rows if r[0] == "F") else set()
    try:
        res = remap.run_api(case)
    except Exception as e:  # noqa: BLE001 -- tagging / naming errors are C09's and C10's subject
        rec.note(case, False, {"error", "error_" + type(e).__name__})
        return
    outs = [[f"{k}:{s.name}", conv.plain_rows(s.rows, with_tags=False)] for k, s in res.all_scaffolds()]
    try:
        oracle(case, outs, True, classes)
    finally:
        rec.note(case, bool(classes & {"junction_between_non_neighbours", "input_gap_retained"}) and "target_mode" in classes, classes)


@st.composite
def model_cases(draw):
    t = draw(gen.texel())
    style = draw(st.integers(0, 2))
    inp = draw(gen.input_assembly(t, max_contigs=8, double_gaps=True, odd_gap_types=True, terminal_gaps=True))
    if style == 0:
        # trailing contigs shorter than a texel: append 1-3 tiny contigs to some scaffolds
        T = max(1, int(t))
        n = 1000
        for _name, rows in inp:
            if draw(st.booleans()):
                while rows[-1][0] == "G":
                    rows.pop()
                fasta_shaped = next(r for r in rows if r[0] == "F")[1] == _name
                for _ in range(draw(st.integers(1, 3))):
                    n += 1
                    ln = draw(st.integers(1, max(1, T // 2)))
                    glen = draw(st.sampled_from([1, 10, 200]))
                    if fasta_shaped:
                        last = rows[-1]
                        rows.append(["G", glen, "scaffold"])
                        rows.append(["F", _name, last[3] + glen + 1, last[3] + glen + ln, 1])
                    else:
                        if draw(st.integers(0, 3)) > 0:
                            rows.append(["G", glen, "scaffold"])
                        rows.append(["F", f"c{n}", 1, ln, draw(st.sampled_from([1, -1]))])
    m = draw(gen.model_map(inp, t, painted=False if style == 0 and draw(st.booleans()) else None,
                           identity=style == 0 and draw(st.booleans())))
    return {"t": gen.texel_str(t), "input": inp, "map": m, "prefix": "SUPER_"}


@st.composite
def perturbed_cases(draw):
    t = draw(gen.texel())
    inp = draw(gen.input_assembly(t))
    m = draw(gen.model_map(inp, t))
    m2, ops = draw(gen.perturb_map(m, inp, t))
    return {"t": gen.texel_str(t), "input": inp, "map": m2, "ops": ops, "prefix": "SUPER_"}


def body_cli(case, rec):
    """the same gap oracle on the files the CLI writes (all assembly files together, incl. the merged all_haplotigs of Primary mode)"""
    classes = {"cli"}
    d = remap.scratch_dir("vf-c07-")
    try:
        # the input goes in as TPF when TPF can carry it (plain gap types, no scaffold beginning or ending with a gap:
        # a TPF gap line belongs to the scaffold before it)
        tpf_able = all(r[2] in ("scaffold", "contig", "centromere") for _n, rows in case["input"] for r in rows if r[0] == "G") \
            and all(rows and rows[0][0] == "F" and rows[-1][0] == "F" for _n, rows in case["input"])
        if tpf_able and len(case["map"]) % 2:
            inp = d / "input.tpf"
            inp.write_text(remap.input_text(case, "tpf"))
            classes.add("input_tpf")
        else:
            inp = d / "input.agp"
            inp.write_text(remap.input_text(case, "agp"))
        mp = d / "map.agp"
        mp.write_text(remap.map_agp_text(case))
        # a third of the cases write TPF (gap types that TPF cannot carry unchanged are left to AGP)
        plain_types = all(r[2] in ("scaffold", "contig", "centromere") for _n, rows in case["input"] for r in rows if r[0] == "G")
        ext = "tpf" if plain_types and len(remap.map_agp_text(case)) % 3 == 0 else "agp"
        classes.add("output_" + ext)
        out = d / "out" / f"x.1.{ext}"
        out.parent.mkdir()
        res = remap.run_cli_inprocess(["-a", inp, "-p", mp, "-o", out, "-c", case.get("prefix", "SUPER_")])
        if res.exit_code != 0:
            rec.note(case, False, classes | {"error"})
            return
        outs = []
        reader = ref.read_agp if ext == "agp" else ref.read_tpf
        for f in sorted(out.parent.iterdir()):
            if f.name.endswith("." + ext):
                if "all_haplotigs" in f.name:
                    classes.add("all_haplotigs_file")
                outs.extend([n, [r[:5] if r[0] == "F" else r for r in rows]] for n, rows in reader(f.read_text())[1])
        try:
            api = remap.run_api(case)
            merged = [s_.name for k_, a in api.assemblies.items() if k_ != "Primary" and getattr(a, "curated", False) for s_ in a.scaffolds] if "Primary" in api.assemblies else []
            # (within one assembly, or across the assemblies that Primary mode writes into one all_haplotigs file)
            if len(set(merged)) != len(merged) or any(len({s_.name for s_ in a.scaffolds}) != len(list(a.scaffolds)) for a in api.assemblies.values()):
                # two scaffolds of one name in one output file (KF-C10-1) are read back as one object: not judged from files
                rec.note(case, False, classes | {"duplicate_names_in_an_output_file_not_judged"})
                return
        except Exception:  # noqa: BLE001
            pass
        try:
            oracle(case, outs, True, classes)
        finally:
            rec.note(case, bool(classes & {"junction_between_non_neighbours", "all_haplotigs_file"}), classes)
    finally:
        remap.rmtree(d)


@st.composite
def cli_cases(draw):
    if draw(st.booleans()):
        c = draw(gen.tagged_case(two_haplotypes=True, primary_mode=True, max_scaffolds=5, max_contigs=5, piece_tag_weight=8))
        # haplotype-prefixed FASTA-shaped inputs: vary the gap types as well
        for _n, rows in c["input"]:
            for r in rows:
                if r[0] == "G" and draw(st.integers(0, 2)) == 0:
                    r[2] = draw(st.sampled_from(["contig", "centromere"]))
        return c
    return draw(model_cases())


@st.composite
def emptied_piece_cases(draw):
    """
    Pieces that end up with NO rows: a small contig (under a texel) sits between two long gaps and the curator's cut
    falls inside it; the piece holding only gap plus the smaller share of the contig loses it to its neighbour. One to
    three such pieces (from different scaffolds) are placed one after the other inside or at the end of a painted
    chromosome.
    """
    import math

    t = draw(st.sampled_from([10.0, 10.0, 7.0, 12.5, 100.0]))
    T = int(t)
    n = draw(st.integers(1, 3))
    inp = [["scaffold_1", [["F", "scaffold_1", 1, draw(st.integers(5, 30)) * T, 1]]]]
    middle, others = [], []
    for i in range(2, n + 2):
        name = f"scaffold_{i}"
        big1 = draw(st.integers(4, 12)) * T - draw(st.integers(0, T - 1))
        gap1 = draw(st.integers(2, 4)) * T + draw(st.integers(0, T - 1))
        # the small contig straddles the texel boundary m
        m = math.ceil((big1 + gap1 + 1) / t) + draw(st.integers(0, 1))
        left = draw(st.integers(1, max(1, T // 2 - 1)))            # share in the gap-only piece
        right = draw(st.integers(left + 1, max(left + 1, T - 2)))  # larger share in the next piece
        start_small = math.floor(m * t) - left + 1
        gap1 = start_small - 1 - big1
        if gap1 < 2 * T:
            continue
        gap2 = draw(st.integers(2, 4)) * T
        big2 = draw(st.integers(4, 12)) * T
        rows = [["F", name, 1, big1, 1], ["G", gap1, "scaffold"], ["F", name, start_small, start_small + left + right - 1, 1],
                ["G", gap2, "scaffold"]]
        pos = start_small + left + right + gap2
        rows.append(["F", name, pos, pos + big2 - 1, 1])
        total = pos + big2 - 1
        n_tex = math.floor(total / t)
        k_a = math.ceil((big1 + 1) / t) + draw(st.integers(0, 1))   # first cut: inside the first gap
        if not (k_a >= 2 and m - k_a >= 2 and n_tex - m >= 2):
            continue
        inp.append([name, rows])
        pcs = [gen.piece_coords(a, b, t) for a, b in ((0, k_a), (k_a, m), (m, n_tex))]
        middle.append(["F", name, pcs[1][0], pcs[1][1], draw(st.sampled_from([1, 1, -1])), ["Painted"]])
        others.append([["F", name, pcs[0][0], pcs[0][1], 1, []], ["F", name, pcs[2][0], pcs[2][1], 1, []]])
    first = ["F", "scaffold_1", 1, ref.rows_len(inp[0][1]), 1, ["Painted"]]
    chain = [first, *middle]
    if middle and draw(st.booleans()):
        chain.insert(draw(st.integers(0, len(chain) - 1)), chain.pop())   # the emptied pieces not always last
    rows1 = []
    for r in chain:
        if rows1:
            rows1.append(list(gen.PRETEXT_GAP))
        rows1.append(r)
    mp = [["Scaffold_1", rows1]]
    for pair in others:
        mp.append([f"Scaffold_{len(mp) + 1}", [pair[0], list(gen.PRETEXT_GAP), pair[1]]])
    return {"t": gen.texel_str(t), "input": inp, "map": mp, "prefix": "SUPER_", "gap_only_pieces": len(middle)}


@st.composite
def partial_cases(draw):
    """
    Outside the PretextView model: baits cover only a run of contigs in the middle of a scaffold
    (found/missing patterns inside one scaffold), contigs often abut without a gap.
    """
    t = draw(gen.texel(small=True))
    inp = draw(gen.input_assembly(t, max_scaffolds=3, max_contigs=7, gap_skip=draw(st.sampled_from([1, 3, 4]))))
    m = []
    for name, rows in inp:
        spans = [sp for sp, r in zip(ref.layout(rows), rows) if r[0] == "F"]
        n_baits = draw(st.integers(0, 2))
        for _ in range(n_baits):
            i = draw(st.integers(0, len(spans) - 1))
            j = draw(st.integers(i, len(spans) - 1))
            a = max(1, spans[i][0] + draw(st.integers(-2, 2)))
            b = max(a, spans[j][1] + draw(st.integers(-2, 2)))
            tags = ["Painted"] if draw(st.booleans()) else []
            m.append([f"Scaffold_{len(m) + 1}", [["F", name, a, b, draw(st.sampled_from([1, 1, -1])), tags]]])
    if not m:
        name, rows = inp[0]
        m.append(["Scaffold_1", [["F", name, 1, max(1, ref.rows_len(rows) // 2), 1, []]]])
    return {"t": gen.texel_str(t), "input": inp, "map": m, "prefix": "SUPER_"}


SUBS = [
    Sub("model", kind="hyp", strategy=model_cases, body=body_model,
        budget={"quick": 20000, "thorough": 400000},
        desc="PretextView-model maps, both sentences of the statement"),
    Sub("perturbed", kind="hyp", strategy=perturbed_cases, body=body_perturbed,
        budget={"quick": 8000, "thorough": 100000},
        desc="perturbed maps that complete, first sentence only"),
    Sub("emptied_pieces", kind="hyp", strategy=emptied_piece_cases, body=body_model,
        budget={"quick": 3000, "thorough": 50000}, desc="one to three pieces in a row that lose their only contig to a neighbour (gap plus the smaller share of a sub-texel contig), inside or at the end of a painted chromosome"),
    Sub("slivers", kind="hyp", strategy=lambda: gen.tagged_case(slivers=True, two_haplotypes=False, max_scaffolds=4, max_contigs=6, piece_tag_weight=6, unloc_weight=50, many_painted=True), body=body_tagged,
        budget={"quick": 6000, "thorough": 100000}, desc="fractional texels, gaps of about two texels, many cuts near contig ends: pieces that cover mostly gap (overlap results emptied by trimming), several in a row"),
    Sub("tagged", kind="hyp", strategy=lambda: gen.tagged_case(max_scaffolds=5, max_contigs=6, piece_tag_weight=5), body=body_tagged,
        budget={"quick": 8000, "thorough": 150000}, desc="tagged maps incl. Target mode and two haplotypes: gap rows of every output assembly (curated, haplotigs, contaminants, false duplicates)"),
    Sub("cli", kind="hyp", strategy=cli_cases, body=body_cli,
        budget={"quick": 320, "thorough": 4000}, desc="gap oracle on the AGP files written by the CLI (model maps and Primary-mode maps with merged all_haplotigs file)"),
    Sub("partial", kind="hyp", strategy=partial_cases, body=body_perturbed,
        budget={"quick": 8000, "thorough": 100000},
        desc="baits covering only a middle run of contigs (found/missing patterns inside a scaffold), first sentence only"),
]


def kp_leftover_no_gap(sub, case, msg):
    return "are directly adjacent (no gap)" in msg


KNOWN_PREDICATES = {"leftover_appended_without_gap": kp_leftover_no_gap}
