"""C15 - a stale, partial or concurrently rewritten index cache is never silently used."""

import os
import shutil
import tempfile
import time
from pathlib import Path

from hypothesis import strategies as st

from tola.fasta.index import FastaIndex

from vf import conv, fa, fsim, gen, ref
from vf.runner import Sub, Violation

ID = "C15"
LEVEL = "fault_enumeration"
RULE = (
    "Sub-check histories (Hypothesis rule-based state machine, real files, harness-owned clock via os.utime): rules "
    "rewrite_fasta(content from a pool; mtime later, or equal to the newest cache file), delete_fai, delete_agp, "
    "age_cache(file -> FASTA mtime | older), auto_load(fresh FastaIndex), create an index object now / auto_load it later. After every auto_load: result = reference index + "
    "assembly of the FASTA's current bytes, or an exception; both cache files exist; if either was missing or not strictly "
    "newer before the call both were rewritten with the reference content. Sub-check crash (fault enumeration): the file "
    "operations of an indexing run (stat, open, every flush of k in {7,64,8192} bytes, close, replace/rename/unlink) are "
    "numbered through vf/fsim.py; for a generated (FASTA, initial cache state in {none, valid, stale, only .fai, only .agp}, k, "
    "temporary directory on the same or on another file system) "
    "the run is repeated with a crash injected before EVERY step j (unflushed data lost, completed steps persist) and a fresh "
    "un-shimmed auto_load must raise or equal the reference. Sub-check interleave: 2-3 virtual processes auto-loading the same "
    "FASTA, stepped one file operation at a time by a Hypothesis-drawn schedule (readers see the flushed prefix of a file "
    "being written); every process's result and a final fresh load must equal the reference or raise. Sub-check "
    "interleave_systematic enumerates ALL schedules of 3 processes within a preemption bound (complete for the bound). Non-trivial = an "
    "auto_load following a rewrite/deletion with the other cache file still present (histories); a crash point after the first "
    "cache-file operation (crash); a schedule with >= 1 switch between processes while cache files are written (interleave); "
    "Sub-check roundtrip: cold vs warm load over the full FASTA domain. distinct by SHA-1."
)
ASSUMPTIONS = [
    "process crash model: completed file operations persist, unflushed user-space buffers are lost; power loss / unsynced data is out of scope (as in the statement)",
    "granularity is the Python-level file operation; virtual processes are threads that run one at a time and get distinct os.getpid() values",
    "histories / crash / interleave use records with >= 1 residue and names not starting with '#'; what the AGP cache cannot represent (such names, empty records) is covered by sub-check roundtrip",
    "reads of a cache file are atomic at open time (a sound subset of what a real reader can observe)",
]

PAST = 1_500_000_000  # logical epoch for harness-owned mtimes (far in the past)


def oracle_of(data: bytes):
    recs = ref.read_fasta(data)
    idx = {}
    for r in recs:
        idx[r["name"]] = (len(r["seq"]), r["offset"], r["width"] if r["linebytes"] else None, r["linebytes"])
    asm = []
    for r in recs:
        rows = [["F", r["name"], a, b, 1] if is_seq else ["G", b - a + 1, "scaffold"] for is_seq, a, b in ref.acgt_runs(r["seq"])]
        asm.append([r["name"], rows])
    return idx, asm


def result_of(fai: FastaIndex):
    idx = {n: fa.info_tuple(i) for n, i in fai.index.items()}
    return idx, conv.plain_assembly(fai.assembly, with_tags=True)


def compare(got, want, where):
    gidx, gasm = got
    widx, wasm = want
    if list(gidx) != list(widx):
        raise Violation(f"{where}: index names {list(gidx)[:6]} != {list(widx)[:6]} of the FASTA's current content")
    for n, w in widx.items():
        g = gidx[n]
        if g[:2] != w[:2] or (w[3] is not None and g[2:] != w[2:]):
            raise Violation(f"{where}: index entry {n} = {g}, current FASTA content gives {w}")
    if gasm != wasm:
        for g, w in zip(gasm, wasm):
            if g != w:
                raise Violation(f"{where}: assembly of {w[0]} = {g[1][:4]}, current FASTA content gives {w[1][:4]}")
        raise Violation(f"{where}: assembly has {len(gasm)} scaffolds, current FASTA content has {len(wasm)}")


def load(path, buffer=250_000):
    fai = FastaIndex(Path(path), buffer)
    try:
        fai.auto_load()
        return result_of(fai)
    finally:
        fa.close(fai)


def fresh_load_must_be_right(path, want, where):
    try:
        got = load(path)
    except Exception:  # noqa: BLE001  -- "fails loudly" is allowed
        return "raised"
    compare(got, want, where)
    return "ok"


def new_dir():
    return Path(tempfile.mkdtemp(prefix="c15-", dir=fa.scratch()))


class other_fs_tmpdir:
    """
    While active, the process-wide temporary directory ($TMPDIR / tempfile.tempdir) lies on a different
    file system than the FASTA file (a node-local /tmp against a data volume), if the sandbox has one.
    """

    def __init__(self, work, enabled):
        self.dir = None
        if enabled:
            dev = os.stat(work).st_dev
            for cand in ("/dev/shm", "/tmp", "/run/lock"):
                try:
                    if os.stat(cand).st_dev != dev and os.access(cand, os.W_OK):
                        self.dir = tempfile.mkdtemp(prefix="c15-tmp-", dir=cand)
                        break
                except OSError:
                    continue

    def __enter__(self):
        self.saved = (os.environ.get("TMPDIR"), tempfile.tempdir)
        if self.dir:
            os.environ["TMPDIR"] = self.dir
            tempfile.tempdir = None
        return self

    def __exit__(self, *a):
        if self.dir:
            if self.saved[0] is None:
                os.environ.pop("TMPDIR", None)
            else:
                os.environ["TMPDIR"] = self.saved[0]
            tempfile.tempdir = self.saved[1]
            shutil.rmtree(self.dir, ignore_errors=True)
        return False


# --------------------------------------------------------------------------
# (a) histories


class History:
    """Plain, replayable executor of a history; the state machine delegates to it."""

    def __init__(self, pool, setup=None):
        setup = setup or {}
        self.pool = [gen.fasta_bytes(p) for p in pool]
        self.dir = new_dir()
        self.path = self.dir / "asm.fa"
        self.fai = self.dir / "asm.fa.fai"
        self.agp = self.dir / "asm.fa.agp"
        self.clock = PAST
        self.saved_tz = None
        if setup.get("symlinked"):
            # the FASTA path is a symbolic link into a data store; rewrites go through the link and change the target
            store = self.dir / "store"
            store.mkdir()
            (store / "asm.v1.fa").write_bytes(b"")
            self.path.symlink_to(store / "asm.v1.fa")
            os.utime(self.path, (PAST - 1000, PAST - 1000), follow_symlinks=False)
        if setup.get("dst_fold"):
            # local time zone with daylight saving; the history starts a few seconds before clocks go back one hour
            # (29 Oct 2017 01:00:00 UTC in Central Europe), so local wall-clock time is not monotonic during it
            self.saved_tz = os.environ.get("TZ", "")
            os.environ["TZ"] = "CET-1CEST,M3.5.0,M10.5.0/3"
            time.tzset()
            self.clock = 1509238800 - int(setup["dst_fold"])
        self.content = None
        self.dirty = False  # a rewrite / deletion happened since the last load
        self.loads = 0
        self.nontrivial_loads = 0
        self.write_fasta(0, False)

    def close(self):
        shutil.rmtree(self.dir, ignore_errors=True)
        if self.saved_tz is not None:
            if self.saved_tz:
                os.environ["TZ"] = self.saved_tz
            else:
                os.environ.pop("TZ", None)
            time.tzset()
            self.saved_tz = None

    def stamp(self, p, t):
        os.utime(p, (t, t))

    def cache_times_to_harness_clock(self):
        """cache files just written carry real "now" stamps: give them the next tick of the harness clock"""
        real = [p for p in (self.fai, self.agp) if p.exists() and p.stat().st_mtime > PAST + 10**8]
        if real:
            self.clock += 1
            for p in real:
                self.stamp(p, self.clock)

    def write_fasta(self, i, same_tick):
        self.content = self.pool[i % len(self.pool)]
        self.path.write_bytes(self.content)
        caches = [p for p in (self.fai, self.agp) if p.exists()]
        if same_tick and caches:
            t = max(int(p.stat().st_mtime) for p in caches)
        else:
            self.clock += 1
            t = self.clock
        self.stamp(self.path, t)
        self.dirty = True

    def delete(self, which):
        p = self.fai if which == "fai" else self.agp
        if p.exists():
            p.unlink()
            self.dirty = True

    def age(self, which, equal):
        p = self.fai if which == "fai" else self.agp
        if p.exists():
            ft = int(self.path.stat().st_mtime)
            self.stamp(p, ft if equal else ft - 5)
            self.dirty = True

    def auto_load(self):
        ft = self.path.stat().st_mtime
        pre = {}
        for p in (self.fai, self.agp):
            pre[p] = (p.read_bytes(), p.stat().st_mtime_ns) if p.exists() else None
        valid_before = all(v is not None for v in pre.values()) and all(p.stat().st_mtime > ft for p in pre)
        self.loads += 1
        if self.dirty and any(v is not None for v in pre.values()):
            self.nontrivial_loads += 1
        want = oracle_of(self.content)
        try:
            got = load(self.path)
        except Exception as e:  # noqa: BLE001  -- loud failure is allowed
            self.dirty = False
            self.cache_times_to_harness_clock()
            return "raised " + type(e).__name__
        compare(got, want, "auto_load")
        for p in (self.fai, self.agp):
            if not p.exists():
                raise Violation(f"after auto_load {p.name} does not exist")
        if not valid_before:
            for p in (self.fai, self.agp):
                if pre[p] is not None and p.stat().st_mtime_ns == pre[p][1]:
                    raise Violation(f"cache was missing / not strictly newer than the FASTA, but {p.name} was not rewritten")
            lines = self.fai.read_text().split("\n")[:-1]
            names = [l.split("\t")[0] for l in lines]
            if names != list(want[0]):
                raise Violation(f"rewritten .fai lists {names}, FASTA has {list(want[0])}")
            if ref.read_agp(self.agp.read_text())[1] != want[1]:
                raise Violation("rewritten .agp does not describe the FASTA's current content")
        self.clock += 1
        for p in (self.fai, self.agp):
            self.stamp(p, self.clock)
        self.dirty = False
        return "ok"

    def hold(self):
        """create the index object now, load it later (possibly after the FASTA or the cache changed)"""
        self.held = FastaIndex(self.path)

    def load_held(self):
        if getattr(self, "held", None) is None:
            return None
        fai, self.held = self.held, None
        ft = self.path.stat().st_mtime
        valid_before = all(p.exists() and p.stat().st_mtime > ft for p in (self.fai, self.agp))
        self.loads += 1
        want = oracle_of(self.content)
        try:
            fai.auto_load()
            got = result_of(fai)
        except Exception as e:  # noqa: BLE001
            self.dirty = False
            self.cache_times_to_harness_clock()
            return "raised " + type(e).__name__
        finally:
            fa.close(fai)
        self.cache_times_to_harness_clock()
        compare(got, want, "auto_load on an index object created before the last change")
        self.nontrivial_loads += 1
        self.dirty = False
        return "ok"

    def future_fasta(self, i, j):
        """
        The FASTA carries a time stamp in the future (clock skew, `touch -d`): index it, then replace it with
        other content half a second later; each load must describe the content of that moment.
        """
        base = time.time() + 40
        for step, k in enumerate((i, j)):
            self.content = self.pool[k % len(self.pool)]
            self.path.write_bytes(self.content)
            t_ns = int((base + 0.5 * step) * 1e9)
            os.utime(self.path, ns=(t_ns, t_ns))
            self.loads += 1
            try:
                got = load(self.path)
            except Exception:  # noqa: BLE001
                continue
            compare(got, oracle_of(self.content), f"FASTA dated {40 + 0.5 * step:.1f} s in the future, load {step + 1}")
        self.nontrivial_loads += 1
        # back to the harness clock (the cache files carry real "now" stamps: age them below the FASTA)
        self.clock += 2
        self.stamp(self.path, self.clock)
        for p in (self.fai, self.agp):
            if p.exists():
                self.stamp(p, self.clock - 1)
        self.dirty = True

    def keep_loaded(self):
        """load through an object that is kept alive"""
        fai = FastaIndex(self.path)
        try:
            fai.auto_load()
        except Exception:  # noqa: BLE001
            fa.close(fai)
            self.cache_times_to_harness_clock()
            return
        self.cache_times_to_harness_clock()
        compare(result_of(fai), oracle_of(self.content), "auto_load (object kept)")
        self.dirty = False
        self.loaded = fai

    def load_again(self):
        """auto_load() a second time on the kept object, after whatever happened since: loud failure, or the current content"""
        fai = getattr(self, "loaded", None)
        if fai is None:
            return
        self.loaded = None
        self.loads += 1
        try:
            fai.auto_load()
            got = result_of(fai)
        except Exception:  # noqa: BLE001
            return
        finally:
            fa.close(fai)
            self.cache_times_to_harness_clock()
        compare(got, oracle_of(self.content), "second auto_load() on an index object that had already loaded")
        self.nontrivial_loads += 1

    def apply(self, op):
        k = op[0]
        if k == "future":
            return self.future_fasta(op[1], op[2])
        if k == "keep_loaded":
            return self.keep_loaded()
        if k == "load_again":
            return self.load_again()
        if k == "hold":
            return self.hold()
        if k == "load_held":
            return self.load_held()
        if k == "rewrite":
            self.write_fasta(op[1], op[2])
        elif k == "delete":
            self.delete(op[1])
        elif k == "age":
            self.age(op[1], op[2])
        elif k == "load":
            return self.auto_load()


def body_history(case, rec):
    h = History(case["pool"], case.get("setup"))
    try:
        for op in case["ops"]:
            h.apply(op)
        if rec is not None:
            rec.count("auto_loads", h.loads)
            rec.note(case, h.nontrivial_loads > 0, {"loads_after_change_with_cache_present"} if h.nontrivial_loads else ())
    finally:
        h.close()


def run_histories(rec, tier, seed_value, shard, nshards, handle):
    from hypothesis import HealthCheck, Verbosity, seed, settings
    from hypothesis.stateful import RuleBasedStateMachine, initialize, rule, run_state_machine_as_test

    total = {"quick": 960, "thorough": 12000}[tier]
    n = max(1, -(-total // nshards))
    last = {}

    class Machine(RuleBasedStateMachine):
        def __init__(self):
            super().__init__()
            self.h = None
            self.case = None

        @initialize(pool=st.lists(cache_fasta(), min_size=2, max_size=4), env=st.sampled_from([0, 0, 0, 1, 2, 3]), fold=st.integers(1, 6))
        def setup(self, pool, env, fold):
            setup = {}
            if env in (1, 3):
                setup["symlinked"] = True
            if env in (2, 3):
                setup["dst_fold"] = fold
            self.case = {"pool": pool, "ops": [], "setup": setup}
            self.h = History(pool, setup)

        def do(self, op):
            self.case["ops"].append(op)
            last["case"] = self.case
            self.h.apply(op)

        @rule(i=st.integers(0, 3), same_tick=st.booleans())
        def rewrite_fasta(self, i, same_tick):
            self.do(["rewrite", i, same_tick])

        @rule(which=st.sampled_from(["fai", "agp"]))
        def delete_cache_file(self, which):
            self.do(["delete", which])

        @rule(which=st.sampled_from(["fai", "agp"]), equal=st.booleans())
        def age_cache_file(self, which, equal):
            self.do(["age", which, equal])

        @rule()
        def auto_load(self):
            self.do(["load"])

        @rule(i=st.integers(0, 3), j=st.integers(0, 3))
        def fasta_dated_in_the_future(self, i, j):
            self.do(["future", i, j])

        @rule()
        def load_and_keep_object(self):
            self.do(["keep_loaded"])

        @rule()
        def load_again_on_kept_object(self):
            self.do(["load_again"])

        @rule()
        def create_index_object(self):
            self.do(["hold"])

        @rule()
        def load_held_index_object(self):
            self.do(["load_held"])

        def teardown(self):
            if self.h is not None:
                if not rec.shrinking and rec.failure is None:
                    rec.count("auto_loads", self.h.loads)
                rec.note(self.case, self.h.nontrivial_loads > 0, ({"loads_after_change_with_cache_present"} if self.h.nontrivial_loads else set())
                         | {"fasta_is_symlink" for _ in [0] if self.case["setup"].get("symlinked")} | {"clock_goes_back_one_hour" for _ in [0] if self.case["setup"].get("dst_fold")})
                self.h.close()

    st_settings = settings(max_examples=n, stateful_step_count=25, deadline=None, database=None, report_multiple_bugs=False,
                           print_blob=False, verbosity=Verbosity.quiet, suppress_health_check=list(HealthCheck))
    try:
        run_state_machine_as_test(seed(seed_value)(Machine), settings=st_settings)
    except Violation as v:
        case = last.get("case")

        def again():
            raise v

        rec.shrinking = False
        handle(case, again)


# --------------------------------------------------------------------------
# (b) crash points


def setup_state(d: Path, data: bytes, other: bytes, initial: str):
    """FASTA + initial cache state in directory d; mtimes: FASTA in the past, valid cache newer, stale cache older."""
    path = d / "asm.fa"
    fai, agp = d / "asm.fa.fai", d / "asm.fa.agp"
    if initial == "stale":
        path.write_bytes(other)
        load(path)
        for p in (fai, agp):
            os.utime(p, (PAST - 100, PAST - 100))
    path.write_bytes(data)
    os.utime(path, (PAST, PAST))
    if initial in ("valid", "only_fai", "only_agp"):
        load(path)
        now = PAST + 50
        for p in (fai, agp):
            os.utime(p, (now, now))
        if initial == "only_fai":
            agp.unlink()
        if initial == "only_agp":
            fai.unlink()
    return path


def restore(template: Path, work: Path):
    for f in work.iterdir():
        f.unlink()
    for f in template.iterdir():
        shutil.copy2(f, work / f.name)


def body_crash(case, rec):
    data = gen.fasta_bytes(case["fasta"])
    other = gen.fasta_bytes(case["other"])
    want = oracle_of(data)
    template, work = new_dir(), new_dir()
    try:
        setup_state(template, data, other, case["initial"])
        restore(template, work)
        path = work / "asm.fa"
        tmpctx = other_fs_tmpdir(work, case.get("tmp_other_fs"))
        with tmpctx, fsim.Sim(work, keep=[path], chunk=case["chunk"]) as sim:
            try:
                load(path)
            except Exception:  # noqa: BLE001
                pass
        n = sim.steps
        first_write = next((s for s, what, _f in sim.log if what in ("open-write", "os.open", "replace", "rename")), None)
        outcomes = {"ok": 0, "raised": 0}
        for j in range(1, n + 1):
            restore(template, work)
            with other_fs_tmpdir(work, case.get("tmp_other_fs")), fsim.Sim(work, keep=[path], chunk=case["chunk"], crash_at=j) as sim_j:
                try:
                    load(path)
                except fsim.Crash:
                    pass
                except Exception:  # noqa: BLE001  -- the run may fail for its own reasons; the state on disk is what counts
                    pass
            out = fresh_load_must_be_right(path, want, f"crash before step {j}/{n} {sim.log[j - 1][1:]} (initial cache: {case['initial']}, flush {case['chunk']}), then a fresh load")
            outcomes[out] += 1
            if sim.log[j - 1][1] in ("flush", "close", "open-write"):
                # the same step FAILS instead (disk full): the process lives on, its handlers and clean-up code run
                restore(template, work)
                with other_fs_tmpdir(work, case.get("tmp_other_fs")), fsim.Sim(work, keep=[path], chunk=case["chunk"], crash_at=j, fault="oserror"):
                    try:
                        load(path)
                    except Exception:  # noqa: BLE001  -- a loud failure is what is expected here
                        pass
                out = fresh_load_must_be_right(path, want, f"write error (ENOSPC) at step {j}/{n} {sim.log[j - 1][1:]} (initial cache: {case['initial']}, flush {case['chunk']}), then a fresh load")
                outcomes[out] += 1
                if rec is not None:
                    rec.count("write_errors_injected")
        if rec is not None:
            rec.count("crash_points", n)
            rec.count("loads_ok_after_crash", outcomes["ok"])
            rec.count("loads_raised_after_crash", outcomes["raised"])
            rec.note(case, first_write is not None and n > first_write, {"initial_" + case["initial"], f"chunk_{case['chunk']}"}
                     | ({"tmpdir_on_other_filesystem"} if tmpctx.dir else set()))
    finally:
        shutil.rmtree(template, ignore_errors=True)
        shutil.rmtree(work, ignore_errors=True)


# --------------------------------------------------------------------------
# (c) interleavings


def body_interleave(case, rec):
    data = gen.fasta_bytes(case["fasta"])
    other = gen.fasta_bytes(case["other"])
    want = oracle_of(data)
    work = new_dir()
    try:
        path = setup_state(work, data, other, case["initial"])
        sched = fsim.Scheduler(case["schedule"])
        with fsim.Sim(work, keep=[path], chunk=case["chunk"], scheduler=sched) as sim:
            results = sched.run([lambda: load(path) for _ in range(case["procs"])], sim=sim)
        outcomes = set()
        for i, (kind, val) in enumerate(results):
            if kind == "ok":
                compare(val, want, f"process {i} of {case['procs']} (schedule {case['schedule']}, initial cache: {case['initial']}, flush {case['chunk']})")
                outcomes.add("loaded")
            elif kind == "raised":
                if isinstance(val, (fsim.Crash, RuntimeError)) and "scheduler" in str(val):
                    raise val
                outcomes.add("raised_" + type(val).__name__)
        out = fresh_load_must_be_right(path, want, f"fresh load after {case['procs']} interleaved processes (schedule {case['schedule']})")
        if rec is not None:
            rec.count("switches", sched.switches)
            rec.count("steps", sim.steps)
            wrote = any(what in ("open-write", "os.open", "flush") for _s, what, _f in sim.log)
            rec.note(case, sched.switches >= 1 and wrote, outcomes | {"initial_" + case["initial"], "final_" + out})
    finally:
        shutil.rmtree(work, ignore_errors=True)


def systematic_cases(tier, shard, nshards):
    """
    Bounded-preemption enumeration (complete for the stated bound): 3 identical virtual processes,
    schedules of up to 4 segments [process, n] with at most K segments of bounded length n in 1..L
    (the others run to completion), process symmetry removed.
    """
    import itertools

    K, L = (2, 12) if tier == "quick" else (3, 13)
    initials = ["none", "stale"] if tier == "quick" else ["none", "stale", "only_agp", "only_fai", "valid"]
    orders = [[0, 1, a, b] for a in (0, 2) for b in (0, 1, 2) if b != a]
    k = 0
    for initial in initials:
        for order in orders:
            for bounded in itertools.chain.from_iterable(itertools.combinations(range(4), r) for r in range(K + 1)):
                for lens in itertools.product(range(1, L + 1), repeat=len(bounded)):
                    k += 1
                    if k % nshards != shard:
                        continue
                    seg = [[p, None] for p in order]
                    for i, n in zip(bounded, lens):
                        seg[i][1] = n
                    yield {"fasta": SMALL_FASTA, "other": OTHER_FASTA, "initial": initial, "chunk": 8192, "procs": 3, "schedule": seg}


SMALL_FASTA = {"records": [["a1", "", "ACGTNNAC", 4, "\n"], ["b2", " d", "GG", 60, "\n"]], "final_newline": True}
OTHER_FASTA = {"records": [["a1", "", "TTTT", 4, "\n"]], "final_newline": True}


# --------------------------------------------------------------------------
# (d) cold vs warm over the full FASTA domain (names starting with '#', empty records included)


def body_roundtrip(case, rec):
    data = gen.fasta_bytes(case["fasta"])
    want = oracle_of(data)
    odd = {"hash_name"} if any(r[0].startswith("#") for r in case["fasta"]["records"]) else set()
    if any(len(r[2]) == 0 for r in case["fasta"]["records"]):
        odd.add("empty_record")
    rec.note(case, len(case["fasta"]["records"]) > 1, odd)
    with fa.TempFasta(data) as path:
        cold = load(path, case["buffer"])
        compare(cold, want, "cold load (cache built)")
        warm = load(path, case["buffer"])
        compare(warm, want, "warm load (cache read back)")


# --------------------------------------------------------------------------
# strategies


@st.composite
def cache_fasta(draw, max_records=3):
    f = draw(gen.fasta_file(max_records=max_records, min_len=1, max_lines=6))
    for i, r in enumerate(f["records"]):
        if r[0].startswith("#"):
            r[0] = "r" + r[0][1:]
    return f


INITIAL = ["none", "valid", "stale", "only_fai", "only_agp"]


@st.composite
def crash_cases(draw):
    return {
        "fasta": draw(cache_fasta()),
        "other": draw(cache_fasta()),
        "initial": draw(st.sampled_from(INITIAL)),
        "chunk": draw(st.sampled_from([7, 64, 64, 8192])),
        "tmp_other_fs": draw(st.integers(0, 2)) == 0,
    }


@st.composite
def interleave_cases(draw):
    procs = draw(st.integers(2, 3))
    # bounded pre-emptions: long runs of one process with up to 3 switches, then run to completion
    sched = []
    cur = draw(st.integers(0, procs - 1))
    for _ in range(draw(st.integers(1, 4))):
        sched += [cur] * draw(st.integers(1, 12))
        cur = draw(st.integers(0, procs - 1))
    return {
        "fasta": draw(cache_fasta()),
        "other": draw(cache_fasta()),
        "initial": draw(st.sampled_from(INITIAL)),
        "chunk": draw(st.sampled_from([7, 64, 8192])),
        "procs": procs,
        "schedule": sched,
    }


@st.composite
def roundtrip_cases(draw):
    return {"fasta": draw(gen.fasta_file(max_records=4)), "buffer": draw(st.sampled_from([1, 7, 64, 250000]))}


SUBS = [
    Sub("histories", kind="custom", run=run_histories, body=body_history,
        budget={"quick": 960, "thorough": 12000}, desc="rule-based state machine over rewrite / delete / age / hold / load with a harness-owned clock; symlinked FASTA and a daylight-saving fold in some histories"),
    Sub("crash", kind="hyp", strategy=crash_cases, body=body_crash, shrink=True,
        budget={"quick": 160, "thorough": 3000}, desc="every crash point of an indexing run x initial cache states x flush sizes, then a fresh load"),
    Sub("interleave", kind="hyp", strategy=interleave_cases, body=body_interleave,
        budget={"quick": 1600, "thorough": 40000}, desc="2-3 virtual processes auto-loading one FASTA under drawn schedules at file-operation granularity"),
    Sub("interleave_systematic", kind="enum", cases=systematic_cases, body=body_interleave, exhaustive=True,
        budget={"quick": 1, "thorough": 1},
        desc="ALL schedules of 3 processes with <= 4 segments and <= 2 (quick) / 3 (thorough) bounded-length segments (1..12/13 operations), initial cache none/stale (quick) + only one file / valid (thorough)"),
    Sub("roundtrip", kind="hyp", strategy=roundtrip_cases, body=body_roundtrip,
        budget={"quick": 1600, "thorough": 30000}, desc="cold load vs warm load over the full FASTA domain (names starting with '#', empty records)"),
]
