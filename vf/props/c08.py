"""C08 - an unedited Pretext map reproduces the input assembly."""

import math

import yaml
from hypothesis import strategies as st

from vf import conv, gen, ref, remap
from vf.runner import Sub, Violation, must

ID = "C08"
LEVEL = "exploration"
RULE = (
    "case = (texel size, input assembly, null Pretext map): every input scaffold presented whole, forward, uncut and "
    "untagged with PretextView's rounding (texel count floor or ceil per scaffold, so ends fall short or overshoot by < 1 "
    "texel), any subset of sub-texel scaffolds absent; the precondition 'last contig >= 1 texel' is enforced by "
    "construction. Sub-check unpainted: output must be the single primary assembly, equal to the input as name -> rows, "
    "statistics all zero. Sub-check painted: every scaffold painted; multiset of row lists equals the input's, names are "
    "<prefix>1..n in non-increasing fragment length. Sub-check cli: through the pretext-to-asm CLI (only *.primary.* "
    "assembly files; info.yaml haplotig removals 0, no breaks/joins). Non-trivial = >= 2 scaffolds, one with > 3 "
    "contigs, and a scaffold end that overshoots or falls short by a non-zero amount; distinct by SHA-1."
)
ASSUMPTIONS = [
    "input names are outside the haplotype-prefix pattern <hap>_..._<n> and the generated namespaces (documented routing would apply)",
    "'same order' is read as row order within each scaffold; the order of scaffolds in an output file is C10's natural sort",
    "painted mode excludes scaffolds absent from the map (they stay unplaced and keep their names)",
    "between two contigs there are 0, 1 or 2 gap rows",
]


def classes_of(case):
    t = float(case["t"])
    cl = set()
    if len(case["input"]) >= 2:
        cl.add("multi_scaffold")
    if any(sum(1 for r in rows if r[0] == "F") > 3 for _n, rows in case["input"]):
        cl.add("scaffold_with_more_than_3_contigs")
    lengths = {n: ref.rows_len(r) for n, r in case["input"]}
    present = set()
    for _pn, rows in case["map"]:
        for r in rows:
            if r[0] == "F":
                present.add(r[1])
                if r[3] != lengths[r[1]]:
                    cl.add("end_off_by_fraction_of_texel")
                    cl.add("overshoot" if r[3] > lengths[r[1]] else "short")
    if len(present) < len(lengths):
        cl.add("subtexel_scaffold_absent")
        if any(n not in present and sum(1 for r in rows if r[0] == "F") > 1 for n, rows in case["input"]):
            cl.add("absent_scaffold_with_several_contigs")
    if any(r[0] == "F" and r[4] < 0 for _n, rows in case["input"] for r in rows):
        cl.add("reverse_contigs")
    if t >= 100:
        cl.add("large_texel")
    return cl


def nontrivial(cl):
    return {"multi_scaffold", "scaffold_with_more_than_3_contigs", "end_off_by_fraction_of_texel"} <= cl


def check_stats(stats):
    if (stats.cuts, stats.breaks, stats.joins) != (0, 0, 0):
        raise Violation(f"statistics not zero: cuts={stats.cuts} breaks={stats.breaks} joins={stats.joins}")


def body_unpainted(case, rec):
    cl = classes_of(case)
    rec.note(case, nontrivial(cl), cl)
    res = must(remap.run_api, case, what="remapping a null map")
    keys = list(res.assemblies)
    if keys != [None]:
        raise Violation(f"expected only the primary assembly, got keys {keys}")
    out = {}
    for s in res.assemblies[None].scaffolds:
        if s.name in out:
            raise Violation(f"duplicate output scaffold {s.name}")
        out[s.name] = conv.plain_rows(s.rows, with_tags=False)
    want = {n: [x[:5] if x[0] == "F" else x for x in r] for n, r in case["input"]}
    if set(out) != set(want):
        raise Violation(f"scaffold names differ: missing {sorted(set(want) - set(out))} extra {sorted(set(out) - set(want))}")
    for n in want:
        if out[n] != want[n]:
            raise Violation(f"scaffold {n} changed: input {want[n]} output {out[n]}")
    check_stats(res.stats)


def body_painted(case, rec):
    cl = classes_of(case) | {"painted"}
    rec.note(case, nontrivial(cl), cl)
    res = must(remap.run_api, case, what="remapping a painted null map")
    keys = list(res.assemblies)
    if keys != [None]:
        raise Violation(f"expected only the primary assembly, got keys {keys}")
    prefix = case["prefix"]
    present = {r[1] for _pn, rows in case["map"] for r in rows if r[0] == "F"}
    bare = [[n, [x[:5] if x[0] == "F" else x for x in r]] for n, r in case["input"]]
    want_painted = sorted(r for n, r in bare if n in present)
    want_unplaced = {n: r for n, r in bare if n not in present}
    got_painted = []
    lens = {}
    for s in res.assemblies[None].scaffolds:
        rows = conv.plain_rows(s.rows, with_tags=False)
        if s.name in want_unplaced:
            if rows != want_unplaced[s.name]:
                raise Violation(f"unplaced scaffold {s.name} changed: {rows}")
            continue
        if not s.name.startswith(prefix) or not s.name[len(prefix):].isdigit():
            raise Violation(f"painted scaffold has name {s.name!r}, expected {prefix}<n>")
        k = int(s.name[len(prefix):])
        if k in lens:
            raise Violation(f"duplicate name {s.name}")
        lens[k] = sum(ref.row_len(r) for r in rows if r[0] == "F")
        got_painted.append(rows)
    if sorted(got_painted) != want_painted:
        raise Violation(f"content changed by painting: expected {want_painted} got {sorted(got_painted)}")
    if sorted(lens) != list(range(1, len(lens) + 1)):
        raise Violation(f"names are not {prefix}1..{len(lens)}: {sorted(lens)}")
    for k in range(1, len(lens)):
        if lens[k] < lens[k + 1]:
            raise Violation(f"{prefix}{k} ({lens[k]} bp) is shorter than {prefix}{k + 1} ({lens[k + 1]} bp)")
    check_stats(res.stats)


def body_cli(case, rec):
    cl = classes_of(case) | {"cli"}
    rec.note(case, nontrivial(cl), cl)
    d = remap.scratch_dir("vf-c08-")
    try:
        inp = d / "input.tpf"
        text = remap.input_text(case, "tpf")
        if len(case["input"]) % 2 == 0:
            # blank lines between the scaffolds of the input TPF (and one at the top), as hand-edited files have them
            lines = text.split("\n")
            out_lines, prev = [""], None
            for ln in lines:
                f_ = ln.split("\t")
                name_ = f_[2] if len(f_) > 2 and f_[0] != "GAP" else prev
                if prev is not None and name_ != prev:
                    out_lines.append("")
                out_lines.append(ln)
                prev = name_
            text = "\n".join(out_lines)
        inp.write_text(text)
        mp = d / "map.agp"
        mp.write_text(remap.map_agp_text(case))
        out = d / "out" / "x.1.agp"
        out.parent.mkdir()
        res = remap.run_cli_inprocess(["-a", inp, "-p", mp, "-o", out] + (["--log-level", "DEBUG"] if case.get("debug_log") else []))
        if res.exit_code != 0:
            raise Violation(f"CLI failed on a null map: exit {res.exit_code} {type(res.exception).__name__}: {res.exception}")
        files = sorted(f.name for f in out.parent.iterdir())
        asm_files = [f for f in files if f.endswith(".agp")]
        if asm_files != ["x.1.primary.curated.agp"]:
            raise Violation(f"expected only x.1.primary.curated.agp, got {asm_files}")
        got = {n: r for n, r in ref.read_agp((out.parent / asm_files[0]).read_text())[1]}
        want = {n: [x[:5] if x[0] == "F" else x for x in r] for n, r in case["input"]}
        if got != want:
            raise Violation(f"written primary assembly differs from input: {got} vs {want}")
        info = yaml.safe_load((out.parent / "x.1.info.yaml").read_text())
        if info.get("manual_haplotig_removals") != 0:
            raise Violation(f"info.yaml: {info}")
        for k, v in (info.get("assemblies") or {}).items():
            if v.get("manual_breaks") or v.get("manual_joins"):
                raise Violation(f"info.yaml reports edits for {k}: {v}")
        if info.get("manual_breaks") or info.get("manual_joins"):
            raise Violation(f"info.yaml: {info}")
        log = (out.parent / "x.1.log").read_text()
        if "Curation made 0 cuts in contigs, 0 breaks at gaps and 0 joins" not in log:
            raise Violation("log does not report zero cuts, breaks and joins")
    finally:
        remap.rmtree(d)


@st.composite
def cases(draw, painted=False, small=False):
    t = draw(gen.texel())
    inp = draw(gen.input_assembly(t, last_contig_min=math.ceil(t), max_scaffolds=4 if small else 6, max_contigs=6 if small else 10, double_gaps=True))
    # scaffolds shorter than a texel (several tiny contigs, abutting or separated by 1-bp gaps): absent from
    # the map or presented as one (ceil-rounded) texel; the last-contig precondition concerns presented scaffolds
    if t >= 3 and not painted:
        fasta_shaped = inp[0][1][0][1] == inp[0][0]
        for k in range(draw(st.integers(0, 2))):
            budget = int(t) - 1
            rows, pos, n = [], 1, 0
            name = f"tiny_{k + 1}"
            while budget > 0 and n < 4:
                ln = draw(st.integers(1, budget))
                budget -= ln
                if rows and budget > 0 and (fasta_shaped or draw(st.booleans())):
                    rows.append(["G", 1, "scaffold"])
                    budget -= 1
                    pos += 1
                    if budget > 1 and draw(st.integers(0, 2)) == 0:
                        rows.append(["G", 1, "centromere"])  # two consecutive gap rows
                        budget -= 1
                        pos += 1
                n += 1
                rows.append(["F", name, pos, pos + ln - 1, 1] if fasta_shaped else ["F", f"t{k}_{n}", 1, ln, draw(st.sampled_from([1, -1]))])
                pos += ln
            if rows:
                inp.append([name, rows])
    m = draw(gen.model_map(inp, t, cut=False, identity=True, painted=painted))
    prefix = draw(st.sampled_from(["SUPER_", "SUPER_", "CHR", "chr_", "LG"]))
    case = {"t": gen.texel_str(t), "input": inp, "map": m, "prefix": prefix}
    k = draw(st.integers(0, 7))
    if k == 0:
        case["debug_log"] = True  # root logger at DEBUG during the run (API) / --log-level DEBUG (CLI)
    elif k == 1:
        case["fuse_twice"] = True  # the fused assemblies are asked for twice; the second answer is judged
    if draw(st.integers(0, 3)) == 0:
        case["omit_prefix_arg"] = True
    if draw(st.integers(0, 2)) == 0:
        case["t_format"] = draw(st.sampled_from(["int", "short"]))
    if k == 3:
        # second curation round: the input is the AGP an earlier round wrote, its cut contigs carry the tag `Cut`
        for _n, rows in inp:
            for r in rows:
                if r[0] == "F" and draw(st.integers(0, 2)) == 0:
                    r.append(["Cut"])
    elif k == 2:
        # the input assembly object was used before, for an edited map with whole scaffolds inverted or tagged Haplotig
        em = draw(gen.model_map(inp, t, cut=draw(st.booleans())))
        for _pn, rows in em:
            frs = [r for r in rows if r[0] == "F"]
            if len(frs) == 1 and draw(st.integers(0, 1)) == 0:
                frs[0][4] = -1
                if "Painted" not in frs[0][5] and draw(st.booleans()):
                    frs[0][5] = sorted(set(frs[0][5]) | {"Haplotig"})
        case["earlier_map"] = em
    return case


SUBS = [
    Sub("unpainted", kind="hyp", strategy=cases, body=body_unpainted,
        budget={"quick": 16000, "thorough": 300000}, desc="null map, nothing painted: identity and zero statistics"),
    Sub("painted", kind="hyp", strategy=lambda: cases(painted=True), body=body_painted,
        budget={"quick": 8000, "thorough": 150000}, desc="null map, everything painted: only names and order change"),
    Sub("cli", kind="hyp", strategy=lambda: cases(small=True), body=body_cli,
        budget={"quick": 240, "thorough": 3000}, desc="null map through the CLI: files, info.yaml, log line"),
]


def kp_bait_short_of_last_contig(sub, case, msg):
    """
    KF-C08-1: with a fractional texel size the floor-rounded end of the map's piece can stop before the
    first base of a last contig that is still >= 1 texel long (length in [t, floor(t)+1]); that contig
    receives no bait and is re-added as left-over sequence.
    """
    starts = {}
    for n, rows in case["input"]:
        spans = ref.layout(rows)
        starts[n] = spans[-1][0]
    for _pn, rows in case["map"]:
        for r in rows:
            if r[0] == "F" and r[3] < starts[r[1]]:
                return True
    return False


KNOWN_PREDICATES = {"bait_short_of_last_contig": kp_bait_short_of_last_contig}
