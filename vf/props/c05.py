"""C05 - AGP and TPF parse/format round-trip without loss."""

import io
import os

from hypothesis import strategies as st

from tola.assembly.format import format_agp, format_tpf
from tola.assembly.parser import parse_agp, parse_tpf

from vf import conv, ref, remap
from vf.runner import Sub, Violation, must

ID = "C05"
LEVEL = "exploration"
RULE = (
    "case = assembly as plain data: 0-3 header lines, 1-5 uniquely named scaffolds of 1-8 rows; names over printable "
    "characters incl. ': - _ . | #' and internal spaces, digits-only names, names that look like 'x:1-2'; coordinates up to "
    "10^12; strands +,-,?; 0-4 whitespace-free tags; gaps of length 0..10^9 with the AGP gap types. Sub-checks: agp "
    "(parse(format(a)) = a field by field and format(parse(text)) = text byte for byte), tpf (same for what TPF carries: no "
    "tags, strands +/-, no scaffold starting with a gap; gap types through TYPE-2/TYPE-3/upper-case-dash; '?' strands must "
    "raise or round-trip), cli (AGP -> TPF -> AGP through asm-format changes nothing but tags), lines (canonical text with "
    "line-level corruptions - deleted column, junk strand, start > end, non-numeric coordinate, truncated line, blank and "
    "comment lines inserted: parsing raises, or yields exactly one row per data line, each in the scaffold its line names, in "
    "order), fuzz (Atheris / libFuzzer, coverage-guided over raw bytes, first byte selects the format; empty corpus and a "
    "corpus of four small valid texts; the target checks one-row-per-line and parse/format idempotence; evaluations = executed "
    "units, non-trivial = coverage-increasing inputs kept in the corpus). Non-trivial = >= 2 scaffolds, >= 1 gap and a name containing ':' or '-' or a tag (round trips); a corrupted text "
    "that still parses (lines); distinct by SHA-1."
)
ASSUMPTIONS = [
    "names contain no tab / CR / LF and are non-empty; scaffold names do not start with '#'; header lines do not start with '#' or whitespace (the comment grammar cannot carry those)",
    "every scaffold has at least one row (neither format can represent an empty scaffold)",
]

GAP_TYPES = ["scaffold", "contig", "centromere", "short_arm", "heterochromatin", "telomere", "repeat", "contamination"]
NAME_ALPHABET = "abcXYZ0189_-.:|#+ é"


def fmt(asm, which):
    out = io.StringIO()
    (format_agp if which == "agp" else format_tpf)(asm, out)
    return out.getvalue()


def parse(text, which):
    return (parse_agp if which == "agp" else parse_tpf)(io.StringIO(text), "x")


def plain_of(asm, with_tags=True):
    return {"header": list(asm.header), "scaffolds": conv.plain_assembly(asm, with_tags)}


def norm(scaffolds, with_tags=True):
    out = []
    for n, rows in scaffolds:
        nr = []
        for r in rows:
            if r[0] == "F":
                row = list(r[:5])
                if with_tags and len(r) > 5 and r[5]:
                    row.append(list(r[5]))
                nr.append(row)
            else:
                nr.append(list(r))
        out.append([n, nr])
    return out


def classes_of(case):
    cl = set()
    sc = case["scaffolds"]
    if len(sc) >= 2:
        cl.add("multi_scaffold")
    if any(r[0] == "G" for _n, rows in sc for r in rows):
        cl.add("gap")
    names = [n for n, _ in sc] + [r[1] for _n, rows in sc for r in rows if r[0] == "F"]
    if any(":" in n or "-" in n for n in names):
        cl.add("name_with_colon_or_dash")
    if any(" " in n for n in names):
        cl.add("name_with_space")
    if any(r[0] == "F" and len(r) > 5 and r[5] for _n, rows in sc for r in rows):
        cl.add("tags")
    if case.get("header"):
        cl.add("header")
    if any(r[0] == "F" and r[4] == 0 for _n, rows in sc for r in rows):
        cl.add("unknown_strand")
    return cl


def nontrivial(cl):
    return {"multi_scaffold", "gap"} <= cl and bool(cl & {"name_with_colon_or_dash", "tags"})


def body_agp(case, rec):
    cl = classes_of(case)
    rec.note(case, nontrivial(cl), cl)
    asm = conv.mk_assembly("x", case["scaffolds"], header=case["header"])
    text = must(fmt, asm, "agp", what="format_agp")
    back = must(parse, text, "agp", what="parse_agp(format_agp(a))")
    got = plain_of(back)
    want = {"header": list(case["header"]), "scaffolds": norm(case["scaffolds"])}
    if got != want:
        raise Violation(f"AGP round trip changed the assembly: {diff(want, got)}")
    again = must(fmt, back, "agp", what="format_agp(parse_agp(text))")
    if again != text:
        raise Violation(f"re-formatting parsed canonical AGP text differs: {first_diff(text, again)}")
    if text.endswith("\n"):
        # the same file without its final newline (last line unterminated) holds the same assembly
        got2 = plain_of(must(parse, text[:-1], "agp", what="parse_agp(text without final newline)"))
        if got2 != want:
            raise Violation(f"AGP text without its final newline parses differently: {diff(want, got2)}")
    # writing an assembly must not change it: TPF first (it may refuse '?' strands), then AGP again from the same object
    try:
        fmt(asm, "tpf")
    except Exception:  # noqa: BLE001
        pass
    if must(fmt, asm, "agp", what="format_agp after format_tpf") != text:
        raise Violation("formatting the same assembly object as TPF changed what format_agp writes for it afterwards")


def huge_cases(tier, shard, nshards):
    """assemblies with tens of thousands of rows (a fragmented chromosome; row counts around 2**13, 10**4, 2**14, 2**15)"""
    k = 0
    for n_rows in (8191, 8193, 10001, 16385, 32769, 40000):
        for tagged in (False, True):
            k += 1
            if k % nshards != shard:
                continue
            rows = []
            pos = 1
            for i in range(n_rows):
                if i % 2:
                    rows.append(["G", 100 + i % 7, "scaffold"])
                else:
                    ln = 50 + (i * 7919) % 1000
                    row = ["F", f"ctg{i % 97}", pos, pos + ln - 1, 1 if i % 3 else -1]
                    if tagged and i % 5 == 0:
                        row.append(["Painted"])
                    rows.append(row)
                    pos += ln
            if rows[-1][0] == "G":
                rows.pop()
            yield {"header": ["DESCRIPTION: huge"], "scaffolds": [["small_1", [["F", "a", 1, 9, 1]]], ["big", rows], ["small_2", [["F", "b", 5, 9, -1]]]]}


def body_huge(case, rec):
    body_agp(case, rec)
    body_tpf(case, rec)
    asm = conv.mk_assembly("x", case["scaffolds"], header=case["header"])
    from vf import ref

    msg = ref.agp_validate(fmt(asm, "agp"))
    if msg:
        raise Violation(f"AGP of an assembly with {len(case['scaffolds'][1][1])} rows in one object: {msg}")


def tpf_carryable(case):
    for _n, rows in case["scaffolds"]:
        if rows[0][0] == "G":
            return False
    return True


def body_tpf(case, rec):
    cl = classes_of(case) | {"tpf"}
    rec.note(case, nontrivial(cl - {"tags"} | ({"tags"} if "name_with_colon_or_dash" in cl else set())), cl)
    asm = conv.mk_assembly("x", norm(case["scaffolds"], with_tags=False), header=case["header"])
    text = must(fmt, asm, "tpf", what="format_tpf")
    has_unknown = "unknown_strand" in cl
    try:
        back = parse(text, "tpf")
    except Exception as e:  # noqa: BLE001
        if has_unknown:
            return  # '?' strands cannot be carried by TPF: raising is the documented outcome
        raise Violation(f"parse_tpf(format_tpf(a)) raised {type(e).__name__}: {e}") from e
    got = plain_of(back, with_tags=True)
    want = {"header": list(case["header"]), "scaffolds": norm(case["scaffolds"], with_tags=False)}
    if got != want:
        raise Violation(f"TPF round trip changed the assembly: {diff(want, got)}")
    again = must(fmt, back, "tpf", what="format_tpf(parse_tpf(text))")
    if again != text:
        raise Violation(f"re-formatting parsed canonical TPF text differs: {first_diff(text, again)}")
    if text.endswith("\n"):
        got2 = plain_of(must(parse, text[:-1], "tpf", what="parse_tpf(text without final newline)"), with_tags=True)
        if got2 != want:
            raise Violation(f"TPF text without its final newline parses differently: {diff(want, got2)}")


def body_cli(case, rec):
    cl = classes_of(case) | {"cli"}
    rec.note(case, nontrivial(cl), cl)
    asm = conv.mk_assembly("x", case["scaffolds"], header=case["header"])
    agp = fmt(asm, "agp")
    # the format is taken from the file extension, in any letter case (CURATED.TPF, in.Agp)
    # (an unrecognised input extension means AGP, as the help text says)
    ext = {"lower": ("agp", "tpf"), "UPPER": ("AGP", "TPF"), "Mixed": ("Agp", "tPF"), "unknown": ("agp.bak", "tpf")}[case.get("ext", "lower")]
    d = remap.scratch_dir("vf-c05-")
    try:
        (d / f"in.{ext[0]}").write_text(agp)
        r1 = remap.run_cli_inprocess([d / f"in.{ext[0]}", "-o", d / f"mid.{ext[1]}"], script="asm_format")
        if r1.exit_code != 0:
            raise Violation(f"asm-format AGP->TPF (in.{ext[0]} -o mid.{ext[1]}) failed: {r1.exception!r}")
        mid = (d / f"mid.{ext[1]}").read_text()
        back_ext = "agp" if ext[0] == "agp.bak" else ext[0]
        r2 = remap.run_cli_inprocess([d / f"mid.{ext[1]}", "-o", d / f"back.{back_ext}"], script="asm_format")
        if r2.exit_code != 0:
            raise Violation(f"asm-format TPF->AGP (mid.{ext[1]} -o back.{back_ext}) failed: {r2.exception!r}")
        back = (d / f"back.{back_ext}").read_text()
    finally:
        remap.rmtree(d)
    want = fmt(conv.mk_assembly("x", norm(case["scaffolds"], with_tags=False), header=case["header"]), "agp")
    if back != want:
        raise Violation(f"AGP -> TPF -> AGP changed more than the tags: {first_diff(want, back)}")
    want_mid = fmt(conv.mk_assembly("x", norm(case["scaffolds"], with_tags=False), header=case["header"]), "tpf")
    if mid != want_mid:
        raise Violation(f"asm-format in.{ext[0]} -o mid.{ext[1]}: the intermediate file is not the TPF rendering: {first_diff(want_mid, mid)}")
    # an explicit --format wins over the output file's extension
    want_tpf = fmt(conv.mk_assembly("x", norm(case["scaffolds"], with_tags=False), header=case["header"]), "tpf")
    d = remap.scratch_dir("vf-c05-")
    try:
        (d / "in.agp").write_text(agp)
        r3 = remap.run_cli_inprocess([d / "in.agp", "-f", "TPF", "-o", d / "step1.agp"], script="asm_format")
        if r3.exit_code != 0:
            raise Violation(f"asm-format -f TPF -o step1.agp failed: {r3.exception!r}")
        got3 = (d / "step1.agp").read_text()
    finally:
        remap.rmtree(d)
    if got3 != want_tpf:
        raise Violation(f"asm-format -f TPF -o step1.agp did not write TPF: {first_diff(want_tpf, got3)}")
    # the same conversion with the AGP on standard input and the TPF on standard output (overlap QC on: its report belongs on STDERR)
    if case.get("stdin"):
        r = remap.run_cli_subprocess((["-i", "AGP"] if len(case["scaffolds"]) % 2 else []) + ["-f", "TPF", "--qc-overlaps"], script="asm_format", stdin=agp)
        if r.returncode != 0:
            raise Violation(f"asm-format reading STDIN failed: {r.stderr[-300:]}")
        if r.stdout != want_tpf:
            raise Violation(f"asm-format STDIN -> STDOUT differs from the file conversion: {first_diff(want_tpf, r.stdout)}")
    # several input files in one invocation: the output is the concatenation of the single-file outputs
    sc = case["scaffolds"]
    if len(sc) >= 2:
        d = remap.scratch_dir("vf-c05-")
        try:
            k = max(1, len(sc) // 2)
            parts = [sc[:k], sc[k:]]
            singles = []
            # the two files may be of different formats (each is read by its own extension); either order
            mixed = len(sc) % 3
            exts = [("agp", "agp"), ("agp", "tpf"), ("tpf", "agp")][mixed]
            for i, part in enumerate(parts):
                plain_part = part if exts[i] == "agp" else norm(part, with_tags=False)
                (d / f"in_{i}.{exts[i]}").write_text(fmt(conv.mk_assembly("x", plain_part, header=case["header"] if i == 0 else []), exts[i]))
                singles.append(fmt(conv.mk_assembly("x", norm(part, with_tags=False), header=case["header"] if i == 0 else []), "tpf"))
            r = remap.run_cli_inprocess([d / f"in_0.{exts[0]}", d / f"in_1.{exts[1]}", "-o", d / "both.tpf"], script="asm_format")
            if r.exit_code != 0:
                raise Violation(f"asm-format with two input files (in_0.{exts[0]}, in_1.{exts[1]}) failed: {r.exception!r} {(r.output or '')[-200:]!r}")
            got = (d / "both.tpf").read_text()
        finally:
            remap.rmtree(d)
        if got != "".join(singles):
            raise Violation(f"asm-format in_0.{exts[0]} in_1.{exts[1]} -o both.tpf: output is not the concatenation of the two conversions: {first_diff(''.join(singles), got)}")


def diff(want, got):
    if want["header"] != got["header"]:
        return f"header {want['header']} -> {got['header']}"
    for w, g in zip(want["scaffolds"], got["scaffolds"]):
        if w != g:
            if w[0] != g[0]:
                return f"scaffold name {w[0]!r} -> {g[0]!r}"
            for rw, rg in zip(w[1], g[1]):
                if rw != rg:
                    return f"scaffold {w[0]!r}: row {rw} -> {rg}"
            return f"scaffold {w[0]!r}: {len(w[1])} rows -> {len(g[1])} rows"
    return f"{len(want['scaffolds'])} scaffolds -> {len(got['scaffolds'])}"


def first_diff(a, b):
    la, lb = a.split("\n"), b.split("\n")
    for x, y in zip(la, lb):
        if x != y:
            return f"{x!r} -> {y!r}"
    return f"{len(la)} lines -> {len(lb)} lines"


# ---- line-level corruptions


def data_lines(text):
    out = []
    for line in text.split("\n"):
        if line.strip() == "" or line.startswith("#"):
            continue
        out.append(line)
    return out


AGP_STRANDS = {"+": 1, "-": -1, "?": 0, "0": 0, "na": 0}
TPF_STRANDS = {"PLUS": 1, "MINUS": -1}


def unfaithful(which, f, row):
    """
    'yields exactly one row': the row of an ACCEPTED sequence line has to be the one the line's own fields spell
    (component name, coordinates, strand), read with the formats' grammar; returns a reason or None.
    """
    import re

    from tola.assembly.fragment import Fragment

    if not isinstance(row, Fragment):
        return None
    if which == "agp":
        if len(f) < 9 or f[4] != "W":
            return None
        try:
            want = (f[5], int(f[6]), int(f[7]))
        except ValueError:
            return f"component coordinates {f[6:8]} are not integers"
        if f[8] not in AGP_STRANDS:
            return f"orientation column {f[8]!r} is none of + - ? 0 na"
        if (row.name, row.start, row.end, row.strand) != (*want, AGP_STRANDS[f[8]]):
            return f"columns 6-9 spell {want} strand {AGP_STRANDS[f[8]]}"
        return None
    if f[0] == "GAP" or len(f) < 4:
        return None
    m = re.fullmatch(r"(.+):(\d+)-(\d+)", f[1])
    if not m:
        return f"second column {f[1]!r} is not <name>:<start>-<end>"
    if f[3] not in TPF_STRANDS:
        return f"strand column {f[3]!r} is neither PLUS nor MINUS"
    if (row.name, row.start, row.end, row.strand) != (m.group(1), int(m.group(2)), int(m.group(3)), TPF_STRANDS[f[3]]):
        return f"columns 2 and 4 spell {m.groups()} {f[3]}"
    return None


def body_lines(case, rec):
    which = case["format"]
    text = case["text"]
    lines = data_lines(text)
    try:
        asm = parse(text, which)
    except Exception as e:  # noqa: BLE001  -- "or an error"
        rec.note(case, False, {"raised", "raised_" + type(e).__name__, which})
        return
    rec.note(case, bool(case["ops"]), {"parsed", which} | {"op_" + o for o in case["ops"]})
    rows = [(s.name, r) for s in asm.scaffolds for r in s.rows]
    if len(rows) != len(lines):
        raise Violation(f"{which}: {len(lines)} data lines but {len(rows)} rows were parsed (a line was skipped or merged)")
    cur = None
    for k, (line, (sname, _row)) in enumerate(zip(lines, rows)):
        f = line.rstrip().split("\t") if which == "agp" else line.rstrip("\r\n").split("\t")
        if which == "agp":
            cur = f[0]
        elif f[0] != "GAP":
            cur = f[2]
        if sname != cur:
            raise Violation(f"{which}: row {k} from line {line!r} was put into scaffold {sname!r}, the line names {cur!r} (re-homed)")
        why = unfaithful(which, f, _row)
        if why:
            raise Violation(f"{which}: line {line!r} was accepted but its row {_row!r} is not what the line says: {why}")
    # scaffold order and grouping: consecutive lines with the same name form one scaffold
    groups = []
    cur = None
    for line in lines:
        f = line.rstrip().split("\t") if which == "agp" else line.rstrip("\r\n").split("\t")
        name = f[0] if which == "agp" else (cur if f[0] == "GAP" else f[2])
        if not groups or groups[-1][0] != name:
            groups.append([name, 0])
        groups[-1][1] += 1
        cur = name
    got = [[s.name, len(s.rows)] for s in asm.scaffolds]
    if got != groups:
        raise Violation(f"{which}: scaffolds/row counts {got} differ from the line groups {groups}")


# ---- strategies

name_st = st.one_of(
    st.text(alphabet=NAME_ALPHABET, min_size=1, max_size=10).filter(lambda s: s.strip() == s and not s.startswith("#")),
    st.sampled_from(["9", "007", "x:1-2", "a-b", "s p", "scaffold_1:5-9", "hap1_ctg-3", "ctg|1|x"]),
)
tag_st = st.sampled_from(["Painted", "Hap1", "X", "Cut", "Unloc", "needs-review", "B1", "é"])


@st.composite
def assembly_cases(draw, tpf=False):
    n_sc = draw(st.integers(1, 5))
    names = draw(st.lists(name_st, min_size=n_sc, max_size=n_sc, unique=True))
    scaffolds = []
    for sname in names:
        rows = []
        for k in range(draw(st.integers(1, 8))):
            is_gap = draw(st.integers(0, 3)) == 0
            if is_gap and not (tpf and k == 0):
                rows.append(["G", draw(st.sampled_from([0, 1, 100, 200, 10**9])), draw(st.sampled_from(GAP_TYPES))])
            else:
                a = draw(st.one_of(st.integers(1, 1000), st.integers(1, 10**12)))
                b = a + draw(st.one_of(st.integers(0, 1000), st.integers(0, 10**12)))
                strand = draw(st.sampled_from([1, -1] if tpf and draw(st.integers(0, 9)) else [1, -1, 0]))
                row = ["F", draw(name_st), a, b, strand]
                tags = draw(st.lists(tag_st, max_size=4))
                if tags:
                    row.append(tags)
                rows.append(row)
        scaffolds.append([sname, rows])
    if draw(st.integers(0, 3)) == 0:
        frs = [r for _n, rows in scaffolds for r in rows if r[0] == "F"]
        if frs:
            dup = list(draw(st.sampled_from(frs)))
            scaffolds[draw(st.integers(0, len(scaffolds) - 1))][1].append(dup)  # an overlapping pair for --qc-overlaps
    header = draw(st.lists(st.sampled_from(["DESCRIPTION: x", "HiC MAP RESOLUTION: 1.5 bp/texel", "a\tb", "trailing space ", "é"]), max_size=3))
    return {"header": header, "scaffolds": scaffolds}


@st.composite
def line_cases(draw):
    which = draw(st.sampled_from(["agp", "tpf"]))
    base = draw(assembly_cases(tpf=which == "tpf"))
    sc = norm(base["scaffolds"], with_tags=which == "agp")
    asm = conv.mk_assembly("x", sc, header=base["header"])
    lines = fmt(asm, which).split("\n")[:-1]
    ops = []
    for _ in range(draw(st.integers(0, 3))):
        op = draw(st.sampled_from(["del_col", "junk_strand", "junk_coords", "swap_coords", "bad_number", "truncate", "blank", "comment", "dup_line", "extra_col"]))
        i = draw(st.integers(0, len(lines) - 1))
        f = lines[i].split("\t")
        if op == "del_col" and len(f) > 1:
            f.pop(draw(st.integers(0, len(f) - 1)))
            lines[i] = "\t".join(f)
        elif op == "junk_strand":
            f[-1 if which == "tpf" else min(8, len(f) - 1)] = draw(st.sampled_from(["x", "", "plus", "0", "MINUS", "--", "+-"]))
            lines[i] = "\t".join(f)
        elif op == "junk_coords":
            j = 1 if which == "tpf" and len(f) > 1 else min(7, len(f) - 1)
            f[j] = f[j] + draw(st.sampled_from([",000", "bp", "-2000", "e12", " ", ".0"]))
            lines[i] = "\t".join(f)
        elif op == "swap_coords" and which == "agp" and len(f) > 7:
            f[6], f[7] = str(10**6), "1"
            lines[i] = "\t".join(f)
        elif op == "bad_number":
            j = draw(st.integers(0, len(f) - 1))
            f[j] = draw(st.sampled_from(["x1", "1.5", "", "1e3"]))
            lines[i] = "\t".join(f)
        elif op == "truncate":
            lines[i] = lines[i][: draw(st.integers(0, len(lines[i])))]
        elif op == "blank":
            lines.insert(i, draw(st.sampled_from(["", "   ", "\t"])))
        elif op == "comment":
            lines.insert(i, draw(st.sampled_from(["# note", "## meta", "#"])))
        elif op == "dup_line":
            lines.insert(i, lines[i])
        elif op == "extra_col":
            lines[i] = lines[i] + "\t" + draw(st.sampled_from(["extra", "1", "+"]))
        ops.append(op)
    return {"format": which, "text": "\n".join(lines) + "\n", "ops": ops}


# ---- coverage-guided fuzzing (Atheris)


def body_fuzz_replay(case, rec):
    """replay of an input found by the fuzzer (same oracle as inside the target)"""
    from vf import fuzz_oracle

    rec.note(case, True, {"fuzz_replay"})
    fuzz_oracle.check_text(case["format"], case["text"])


def run_fuzz(rec, tier, seed_value, shard, nshards, handle):
    import json
    import shutil
    import subprocess
    import sys
    import tempfile
    from pathlib import Path

    from vf.remap import SCRATCH_ROOT
    from vf.runner import VERIF_DIR, repo_dir

    if not any((Path(d) / "atheris").is_dir() for d in (VERIF_DIR / ".deps", "/verif/.deps")):
        # setup.sh installs it; do it here as well so that the check works from a bare restore
        subprocess.run([sys.executable, "-m", "pip", "install", "-q", "--no-index", "--find-links", "/opt/veriftools/wheels",
                        "--target", str(VERIF_DIR / ".deps"), "atheris"], capture_output=True)
    runs = {"quick": 400000, "thorough": 24000000}[tier] // nshards
    work = Path(tempfile.mkdtemp(prefix="vf-fuzz-", dir=SCRATCH_ROOT))
    try:
        corpus = work / "corpus"
        corpus.mkdir()
        seeded = shard % 2 == 1
        if seeded:
            # a few small valid inputs, as in the repository's tests
            samples = [
                b"\x00scaffold_1\t1\t100\t1\tW\tctg1\t1\t100\t+\tPainted\nscaffold_1\t101\t300\t2\tU\t200\tscaffold\tyes\tproximity_ligation\n",
                b"\x00# HiC MAP RESOLUTION: 1.5 bp/texel\ns\t1\t5\t1\tW\tc:1-2\t3\t7\t?\n",
                b"\x01?\tctg1:1-100\tscaffold_1\tPLUS\nGAP\tTYPE-2\t200\n?\tctg2:5-9\tscaffold_1\tMINUS\n",
                b"\x01## header\n?\ta-b:1-2:3-4\tx y\tPLUS\nGAP\tSHORT-ARM\t1\n",
            ]
            for i, smp in enumerate(samples):
                (corpus / f"seed{i}").write_bytes(smp)
        stats = work / "stats.json"
        art = work / "crash-"
        cmd = [sys.executable, str(VERIF_DIR / "vf" / "fuzz_c05.py"), str(stats), f"-runs={runs}", f"-seed={seed_value % 2**31 or 1}",
               "-max_len=400", f"-artifact_prefix={art}", "-print_final_stats=1", "-timeout=30", str(corpus)]
        env = dict(os.environ, VERIF_REPO=str(repo_dir()), PYTHONHASHSEED="0")
        r = subprocess.run(cmd, capture_output=True, text=True, env=env, timeout=3600)
        st_ = json.loads(stats.read_text()) if stats.exists() else {"execs": 0, "parsed": 0, "parsed_multi_line": 0}
        execs = st_["execs"]
        for line in r.stderr.splitlines():
            if "number_of_executed_units" in line:
                execs = int(line.split()[-1])
        rec.evaluations += execs
        rec.classes["fuzz_inputs_that_parsed"] += st_["parsed"]
        rec.classes["corpus_seeded" if seeded else "corpus_empty"] += 1
        # distinct non-trivial = corpus entries (coverage-increasing inputs) kept by libFuzzer
        for f in corpus.iterdir():
            rec.nontrivial.add(int.from_bytes(f.name.encode()[:8].ljust(8, b"0"), "big") ^ hash(f.read_bytes()) & (2**63 - 1))
        if len(rec.samples) == 0:
            kept = sorted(corpus.iterdir(), key=lambda f: f.stat().st_size)
            if kept:
                b = kept[len(kept) // 2].read_bytes()
                rec.samples["first"] = (len(b), json.dumps({"format": "tpf" if b[:1] and b[0] & 1 else "agp", "text": b[1:].decode("latin-1")}))
        crashes = sorted(work.glob("crash-*"))
        if crashes:
            b = crashes[0].read_bytes()
            case = {"format": "tpf" if b[0] & 1 else "agp", "text": b[1:].decode("latin-1")}
            handle(case, lambda: body_fuzz_replay(case, rec))
            if rec.failure is None:
                from vf.runner import HarnessError

                raise HarnessError(f"fuzzer reported a crash that does not replay: {crashes[0].name}\n{r.stderr[-800:]}")
        elif r.returncode != 0:
            from vf.runner import HarnessError

            raise HarnessError(f"atheris run failed ({r.returncode}): {r.stderr[-800:]}")
    finally:
        shutil.rmtree(work, ignore_errors=True)


SUBS = [
    Sub("agp", kind="hyp", strategy=assembly_cases, body=body_agp,
        budget={"quick": 8000, "thorough": 150000}, desc="parse_agp(format_agp(a)) = a; format(parse(text)) = text"),
    Sub("tpf", kind="hyp", strategy=lambda: assembly_cases(tpf=True), body=body_tpf,
        budget={"quick": 8000, "thorough": 150000}, desc="same through TPF (no tags; '?' strands raise or round-trip)"),
    Sub("huge", kind="enum", cases=huge_cases, body=body_huge,
        budget={"quick": 12, "thorough": 12}, desc="objects of 8 191 - 40 000 rows: AGP and TPF round trips, part numbers"),
    Sub("cli", kind="hyp", strategy=lambda: st.builds(lambda c, k, e: dict(c, stdin=k == 0, ext=e), assembly_cases(tpf=True).filter(lambda c: all(r[0] == "G" or r[4] != 0 for _n, rows in c["scaffolds"] for r in rows)), st.integers(0, 7), st.sampled_from(["lower", "lower", "UPPER", "Mixed", "unknown"])),
        body=body_cli, budget={"quick": 320, "thorough": 5000}, desc="asm-format AGP -> TPF -> AGP"),
    Sub("lines", kind="hyp", strategy=line_cases, body=body_lines,
        budget={"quick": 8000, "thorough": 150000}, desc="corrupted lines: error, or exactly one row per data line in the scaffold the line names"),
    Sub("fuzz", kind="custom", run=run_fuzz, body=body_fuzz_replay, workers=8,
        budget={"quick": 400000, "thorough": 24000000},
        desc="Atheris (libFuzzer) coverage-guided fuzzing of parse_agp / parse_tpf, empty and seeded corpus; oracle in the target: one row per line + parse/format idempotence"),
]
