"""C01 - remapping conserves sequence: outputs exactly partition the input contigs."""

from hypothesis import strategies as st

from vf import gen, ref, remap
from vf.runner import Sub, Violation

ID = "C01"
LEVEL = "exploration"
RULE = (
    "case = (texel size, input assembly, Pretext map). Input assemblies: 1-6 scaffolds x 1-10 contigs, both strands, "
    "contig lengths from 1 bp to 40 texels, gaps of 1..2*texel+1, unique contig names or FASTA-shaped (contig name = "
    "scaffold name), recurated (few names, mixed strands), a third of the cases with scaffolds that start / end with a gap row "
    "(FASTA with terminal N runs), arbitrary names incl. haplotype-looking ones. Maps: PretextView model (texel grid cuts, pieces >= 2 "
    "texels, permuted / re-oriented / regrouped, painted or not) - 40% clean, 60% perturbed by 1-4 of {drop, duplicate, "
    "add reverse copy, shift ends +-3 texels off-grid, replace by arbitrary interval, push beyond scaffold end, sprinkle "
    "known tags, append arbitrary bait}. Oracle: if the run raises it is an allowed error; otherwise the multiset of all "
    "output fragments (all assemblies) must tile every input contig exactly once and contain nothing else. Non-trivial = "
    "run completed AND (a contig was cut, or a contig was hit by no bait and had to be re-added, or a contig hit by >= 2 "
    "baits was resolved without a cut); distinct by SHA-1 of the plain case. Sub-check cli runs the pretext-to-asm CLI on "
    "TPF/AGP input files and re-reads the written AGP/TPF files with an independent reader."
)
ASSUMPTIONS = [
    "input contigs occur once in the input (unique (name,start,end); same-name contigs are disjoint)",
    "any exception counts as 'an error' (the statement allows every error); exception types are tallied in evidence",
]


def bait_hits(case):
    """per input contig: how many baits intersect its scaffold span"""
    spans = {}
    for name, rows in case["input"]:
        spans[name] = [(s, e, tuple(r[1:4])) for (s, e), r in zip(ref.layout(rows), rows) if r[0] == "F"]
    hits = {}
    for name in spans:
        for _s, _e, key in spans[name]:
            hits[key] = 0
    for _pn, rows in case["map"]:
        for r in rows:
            if r[0] != "F":
                continue
            for s, e, key in spans.get(r[1], ()):
                if s <= r[3] and e >= r[2]:
                    hits[key] += 1
    return hits


def classify(case, outputs):
    n_in = sum(1 for _ in ref.all_frags(case["input"]))
    n_out = sum(1 for _ in ref.all_frags(outputs))
    hits = bait_hits(case)
    classes = set()
    if n_out > n_in:
        classes.add("contig_cut")
    if any(v == 0 for v in hits.values()):
        classes.add("contig_readded")
    out_keys = {tuple(r[1:4]) for r in ref.all_frags(outputs)}
    if any(v >= 2 and k in out_keys for k, v in hits.items()):
        classes.add("shared_contig_resolved_uncut")
    return classes


def check_case(case, rec, runner):
    classes = {case.get("kind", "model")}
    classes.update("op_" + o for o in case.get("ops", ()))
    if case.get("no_default_gap"):
        classes.add("no_default_gap")
    try:
        outputs = runner(case)
    except Violation:
        raise
    except Exception as e:  # noqa: BLE001  -- "ends in an error" is allowed by the statement
        classes.add("error")
        classes.add("error_" + type(e).__name__)
        rec.note(case, False, classes)
        return
    classes.add("completed")
    inter = classify(case, outputs)
    if any(rows[0][0] == "G" or rows[-1][0] == "G" for _n, rows in case["input"]):
        classes.add("input_with_terminal_gap")
    classes |= inter
    rec.note(case, bool(inter), classes)
    msg = ref.partition_violation(case["input"], outputs)
    if msg:
        raise Violation(msg)


def api_outputs(case):
    res = remap.run_api(case)
    out = []
    for _k, a in res.assemblies.items():
        for sc in a.scaffolds:
            # without a configured join gap the left-over path adds `None` rows; only fragments matter here
            out.append([sc.name, remap.conv.plain_rows([r for r in sc.rows if r is not None], with_tags=False)])
    return out


def body_api(case, rec):
    check_case(case, rec, api_outputs)


class CliError(Exception):
    pass


def cli_outputs(case):
    d = remap.scratch_dir("vf-c01-")
    try:
        in_fmt = case.get("in_fmt", "tpf")
        out_fmt = case.get("out_fmt", "agp")
        inp = d / f"input.{in_fmt}"
        mp = d / "map.agp"
        if case.get("latin1_names"):
            # contig and scaffold names with Latin-1 letters, files written in that encoding (not valid UTF-8):
            # the run may refuse them, it must not invent names
            tr = lambda n: n.replace("c", "c\xe9", 1) if n.startswith("c") else n + "\xe8"  # noqa: E731
            case = dict(case, input=[[tr(n), [[r[0], tr(r[1]), *r[2:]] if r[0] == "F" else r for r in rows]] for n, rows in case["input"]],
                        map=[[pn, [[r[0], tr(r[1]), *r[2:]] if r[0] == "F" else r for r in rows]] for pn, rows in case["map"]])
            inp.write_text(remap.input_text(case, in_fmt), encoding="latin-1")
            mp.write_text(remap.map_agp_text(case), encoding="latin-1")
        else:
            inp.write_text(remap.input_text(case, in_fmt))
            mp.write_text(remap.map_agp_text(case))
        out = d / "out" / f"x.1.{out_fmt}"
        out.parent.mkdir()
        args = ["-a", inp, "-p", mp, "-o", out, "-c", case.get("prefix", "SUPER_")]
        if case.get("optimize"):
            # the real command in a fresh interpreter started with -O (assert statements compiled away)
            r = remap.run_cli_subprocess(args, py_flags=("-O",))
            if r.returncode != 0:
                raise CliError(f"exit {r.returncode} (python -O)")
        else:
            res = remap.run_cli_inprocess(args)
            if res.exit_code != 0:
                raise CliError(f"exit {res.exit_code}: {type(res.exception).__name__}")
        scaffolds = []
        reader = ref.read_agp if out_fmt == "agp" else ref.read_tpf
        n_files = 0
        latin1 = bool(case.get("latin1_names"))
        back = lambda n: ("c" + n[2:]) if n.startswith("c\xe9") else (n[:-1] if n.endswith("\xe8") else n)  # noqa: E731
        for f in sorted(out.parent.iterdir()):
            if f.name.endswith("." + out_fmt):
                n_files += 1
                got = reader(f.read_text(encoding="latin-1") if latin1 else f.read_text())[1]
                if latin1:
                    got = [[n, [[r[0], back(r[1]), *r[2:]] if r[0] == "F" else r for r in rows]] for n, rows in got]
                scaffolds.extend(got)
        if n_files == 0:
            raise Violation("CLI exited 0 but wrote no assembly file")
        return scaffolds
    finally:
        remap.rmtree(d)


def body_cli(case, rec):
    check_case(case, rec, cli_outputs)


@st.composite
def cases(draw, cli=False):
    t = draw(gen.texel())
    strands = "mixed"
    inp = draw(gen.input_assembly(t, arbitrary_names=not cli, strands=strands, terminal_gaps=True,
                                  max_scaffolds=4 if cli else 6, max_contigs=6 if cli else 10))
    m = draw(gen.model_map(inp, t))
    case = {"t": gen.texel_str(t), "input": inp, "map": m, "prefix": "SUPER_", "kind": "model"}
    if draw(st.integers(0, 9)) < 6:
        m2, ops = draw(gen.perturb_map(m, inp, t))
        case["map"] = m2
        case["ops"] = ops
        case["kind"] = "perturbed"
    if not cli and draw(st.integers(0, 7)) == 0:
        case["no_default_gap"] = True  # BuildAssembly's constructor default (no join gap configured)
    if cli:
        case["in_fmt"] = draw(st.sampled_from(["tpf", "agp"]))
        case["out_fmt"] = draw(st.sampled_from(["agp", "tpf"]))
        if draw(st.integers(0, 5)) == 0:
            case["optimize"] = True
        elif draw(st.integers(0, 5)) == 0:
            case["latin1_names"] = True
    elif draw(st.integers(0, 9)) == 0:
        case["debug_log"] = True
    return case


@st.composite
def tagged_cli_cases(draw):
    """tagged maps through the CLI: two haplotypes, Primary mode with a merged all_haplotigs file, Target mode, piece tags"""
    mode = draw(st.integers(0, 2))
    if mode == 0:
        c = draw(gen.tagged_case(max_scaffolds=6, max_contigs=4, two_haplotypes=True, primary_mode=True, unprefixed_in_primary=True, piece_tag_weight=4))
    elif mode == 1:
        c = draw(gen.tagged_case(max_scaffolds=5, max_contigs=4, two_haplotypes=True, primary_mode=False, piece_tag_weight=4, odd_haplotype_names=True))
    else:
        c = draw(gen.tagged_case(max_scaffolds=5, max_contigs=4, two_haplotypes=False, piece_tag_weight=3))
    c["kind"] = ["primary_mode", "two_haplotypes", "single_haplotype_tagged"][mode]
    c["in_fmt"] = draw(st.sampled_from(["tpf", "agp"]))
    c["out_fmt"] = draw(st.sampled_from(["agp", "tpf"]))
    return c


SUBS = [
    Sub("api", kind="hyp", strategy=cases, body=body_api,
        budget={"quick": 24000, "thorough": 800000},
        desc="BuildAssembly.remap_to_input_assembly + assemblies_with_scaffolds_fused, partition oracle over all returned assemblies"),
    Sub("small_contig_holes", kind="hyp", strategy=gen.small_contig_hole_case, body=body_api,
        budget={"quick": 8000, "thorough": 150000}, desc="maps with a hole inside or next to a contig of up to 2.5 texels (both neighbours reach less than about a texel into it)"),
    Sub("cli_tagged", kind="hyp", strategy=tagged_cli_cases, body=body_cli,
        budget={"quick": 320, "thorough": 5000}, desc="tagged maps (Primary mode with merged all_haplotigs file, two haplotypes, piece tags) through pretext-to-asm: partition oracle over ALL files written"),
    Sub("cli", kind="hyp", strategy=lambda: cases(cli=True), body=body_cli,
        budget={"quick": 320, "thorough": 4000},
        desc="pretext-to-asm CLI (in-process) on TPF/AGP inputs writing AGP/TPF; written files re-read with an independent reader"),
]
