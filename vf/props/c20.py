"""C20 - scaffold ordering is total, numeric-aware and never fails."""

import itertools

from hypothesis import strategies as st

from tola.assembly.assembly import Assembly
from tola.assembly.scaffold import Scaffold

from vf.runner import Sub, Violation, must

ID = "C20"
LEVEL = "exploration"
RULE = (
    "Sub-check sets: Hypothesis draws 2-12 scaffold names over letters, digits, '_', '-', '.', with runs of I/V/X "
    "over-represented, names starting/ending with digits and leading zeros, in a drawn initial permutation plus a second "
    "permutation; both scaffolds_sorted_by_name and smart_sort_scaffolds must succeed and give the same key sequence; "
    "pairwise comparisons of keys are antisymmetric and transitive. Sub-check numeric: metamorphic relations - p+str(a)+s "
    "sorts before p+str(b)+s for a<b (p not ending, s not starting with a digit or numeral letter), the same with I<II<III<IV, "
    "X < X_unloc_1 < X_unloc_2 < next(X) for autosome names <prefix>k, and any rank-1 before rank-2 before rank-3 "
    "whatever the names. Sub-check small_scope: ALL names of length <= 4 over {I,V,X,0,1,2,_,a} (4680 names) keyed, sorted "
    "as one set in two orders and compared pairwise against the numeric relations (complete for that alphabet). "
    "Sub-check history: the same scaffold objects are sorted, renamed (the pipeline's provisional-name -> chromosome-name "
    "pattern and arbitrary names) and sorted again, 2-3 rounds; each order must equal that of fresh scaffolds carrying the "
    "current names. Non-trivial = a set containing a numeral run of length >= 2 or numbers with different digit counts; distinct by SHA-1."
)
ASSUMPTIONS = ["names with equal keys (leading zeros) may come out in either order; only the key sequence is compared"]

NUMERALS = {"I": 1, "II": 2, "III": 3, "IV": 4}


def sort_names(names, ranks=None, smart=False, as_overlap_results=False):
    from tola.assembly.fragment import Fragment

    asm = Assembly("a")
    for i, n in enumerate(names):
        # scaffolds carry sequence of varying length (bare scaffolds all have length 0)
        rows = [Fragment("c", 1, 1 + (len(n) * 7919 + i * 104729) % 5000, 1)] if (len(n) + i) % 3 else []
        rank = ranks[i] if ranks else 0
        if as_overlap_results:
            # the scaffolds the remapper sorts are OverlapResult objects (a Scaffold subclass) built with their rank
            from tola.assembly.overlap_result import OverlapResult

            total = sum(r.length for r in rows)
            asm.add_scaffold(OverlapResult(Fragment("bait", 1, max(1, total), 1), rows, 1, total, name=n, rank=rank))
            continue
        # rank 0 is the constructor's default: leave it to the constructor
        asm.add_scaffold(Scaffold(n, rows, rank=rank) if rank else Scaffold(n, rows))
    if smart:
        must(asm.smart_sort_scaffolds, what=f"smart_sort_scaffolds({names})")
        return [(s.rank, s.name) for s in asm.scaffolds]
    return [s.name for s in must(asm.scaffolds_sorted_by_name, what=f"scaffolds_sorted_by_name({names})")]


def key(name):
    return must(Assembly.name_natural_key, Scaffold(name), what=f"name_natural_key({name!r})")


def nontrivial_names(names):
    import re

    if any(re.search(r"[IV]{2,}", n) for n in names):
        return True
    lens = {len(m) for n in names for m in re.findall(r"\d+", n)}
    return len(lens) > 1


def body_sets(case, rec):
    names, perm = case["names"], case["perm"]
    rec.note(case, nontrivial_names(names), {"has_numeral_run"} if any("II" in n or "IV" in n for n in names) else ())
    other = [names[i] for i in perm]
    a = sort_names(names)
    b = sort_names(other)
    ka, kb = [key(n) for n in a], [key(n) for n in b]
    if ka != kb:
        raise Violation(f"two permutations of {sorted(names)} sort to different key sequences: {a} vs {b}")
    if sorted(a) != sorted(names):
        raise Violation(f"sorting changed the multiset of names: {names} -> {a}")
    for x, y in zip(ka, ka[1:]):
        if not must(lambda: x <= y, what="key comparison"):
            raise Violation(f"output not ordered by key: {a}")
    ranks = case["ranks"]
    sm = sort_names(names, ranks, smart=True)
    if [r for r, _ in sm] != sorted(ranks):
        raise Violation(f"rank does not take precedence: {sm}")
    for (r1, n1), (r2, n2) in zip(sm, sm[1:]):
        if r1 == r2 and not key(n1) <= key(n2):
            raise Violation(f"within rank {r1} names are not in key order: {sm}")
    # antisymmetry / transitivity on the first three names
    ks = [key(n) for n in names[:3]]
    for x, y in itertools.permutations(ks, 2):
        lt, gt, eq = must(lambda: x < y, what="cmp"), must(lambda: x > y, what="cmp"), x == y
        if (lt, gt, eq).count(True) != 1:
            raise Violation(f"keys {x} and {y} are not totally ordered")
    if len(ks) == 3:
        for x, y, z in itertools.permutations(ks, 3):
            if x <= y and y <= z and not x <= z:
                raise Violation(f"key order not transitive: {x} {y} {z}")


def body_numeric(case, rec):
    p, s, a, b, kind = case["p"], case["s"], case["a"], case["b"], case["kind"]
    rec.note(case, True, {kind})
    if kind == "decimal":
        lo, hi = f"{p}{a}{s}", f"{p}{b}{s}"
    elif kind == "numeral":
        inv = {v: k for k, v in NUMERALS.items()}
        lo, hi = f"{p}{inv[a]}{s}", f"{p}{inv[b]}{s}"
    elif kind == "long":
        # names with hundreds of numeric fields that differ only in a late field (value order != string order)
        fields = "_".join(str((k * 37) % 100) for k in range(a))
        lo, hi = f"{p}{fields}_9{s}", f"{p}{fields}_10{s}"
        for order in ([lo, hi], [hi, lo]):
            got = sort_names(order)
            if got != [lo, hi]:
                raise Violation(f"names with {a} numeric fields: ..._9 must sort before ..._10, got the opposite")
        lo2, hi2 = f"{p}{fields}_I", f"{p}{fields}_IV"
        if sort_names([hi2, lo2]) != [lo2, hi2]:
            raise Violation(f"names with {a} numeric fields: ..._I must sort before ..._IV")
        return
    elif kind == "prefix_pair":
        # a name and the same name with a number appended (X / X1 / X2): the shorter one first
        want = [f"{p}X", f"{p}X1", f"{p}X2", f"{p}X10"]
        for order in (want, want[::-1], [want[2], want[0], want[3], want[1]]):
            for smart in (False, True):
                got = sort_names(order, [2] * 4 if smart else None, smart=smart)
                got = [n for _r, n in got] if smart else got
                if got != want:
                    raise Violation(f"{'smart sort' if smart else 'sort by name'}: {got}, expected {want}")
        return
    elif kind == "unloc":
        base = f"{p}{a}"
        want = [base, f"{base}_unloc_1", f"{base}_unloc_2", f"{base}_unloc_10", f"{p}{a + 1}"]
        for order in (want, want[::-1], [want[2], want[4], want[0], want[3], want[1]]):
            got = sort_names(order)
            if got != want:
                raise Violation(f"unlocs not directly after their chromosome: {got}, expected {want}")
            got = [n for _r, n in sort_names(order, [1] * len(order), smart=True)]
            if got != want:
                raise Violation(f"smart sort: unlocs not directly after their chromosome: {got}, expected {want}")
        return
    elif kind == "rank":
        names = case["names"]
        ranks = case["ranks"]
        sm = sort_names(names, ranks, smart=True, as_overlap_results=bool(case.get("overlap_results")))
        if [r for r, _ in sm] != sorted(ranks):
            raise Violation(f"rank does not take precedence over name{' (OverlapResult objects)' if case.get('overlap_results') else ''}: {sm}")
        return
    for order in ([lo, hi], [hi, lo]):
        got = sort_names(order)
        if got != [lo, hi]:
            raise Violation(f"{lo!r} must sort before {hi!r}, got {got}")
    if not key(lo) < key(hi):
        raise Violation(f"key({lo!r}) is not below key({hi!r})")


def body_history(case, rec):
    """sort, rename the same scaffold objects, sort again: the order must depend on the current names only"""
    rounds = case["rounds"]
    rec.note(case, len(rounds) >= 2 and any(nontrivial_names(r) for r in rounds), {"rounds_%d" % len(rounds)})
    asm = Assembly("a")
    ranks = case.get("ranks") or [1] * len(rounds[0])
    for n, rk in zip(rounds[0], ranks):
        asm.add_scaffold(Scaffold(n, rank=rk))
    if case.get("ranks"):
        return history_with_ranks(case, rec, asm)
    for k, names in enumerate(rounds):
        for s, n in zip(list(asm.scaffolds) if k == 0 else objs, names):
            s.name = n
        if k == 0:
            objs = list(asm.scaffolds)
        got = [s.name for s in must(asm.scaffolds_sorted_by_name, what="scaffolds_sorted_by_name")]
        must(asm.smart_sort_scaffolds, what="smart_sort_scaffolds")
        got2 = [s.name for s in asm.scaffolds]
        fresh = sort_names(list(names))
        if [key(n) for n in got] != [key(n) for n in fresh]:
            raise Violation(f"round {k + 1}: scaffolds renamed to {names} sort as {got}; fresh scaffolds with these names sort as {fresh}")
        if [key(n) for n in got2] != [key(n) for n in fresh]:
            raise Violation(f"round {k + 1}: smart sort after renaming gives {got2}; fresh scaffolds sort as {fresh}")


def history_with_ranks(case, rec, asm):
    """
    ranked scaffolds: smart sort (the output order), then the by-name QUERY, then the output order is read again -
    rank still takes precedence, i.e. asking for the by-name list does not reorder the assembly
    """
    for k, names in enumerate(case["rounds"]):
        objs = list(asm.scaffolds)
        for s, n in zip(objs, names):
            s.name = n
        must(asm.smart_sort_scaffolds, what="smart_sort_scaffolds")
        before = [(s.rank, s.name) for s in asm.scaffolds]
        if [(r, key(n)) for r, n in before] != sorted((r, key(n)) for r, n in before):
            raise Violation(f"round {k + 1}: smart sort gives {before}: not ordered by rank, then name")
        by_name = must(asm.scaffolds_sorted_by_name, what="scaffolds_sorted_by_name")
        if [key(s.name) for s in by_name] != sorted(key(n) for _r, n in before):
            raise Violation(f"round {k + 1}: by-name list {[s.name for s in by_name]} is not in key order")
        after = [(s.rank, s.name) for s in asm.scaffolds]
        if after != before:
            raise Violation(f"round {k + 1}: asking for the by-name list changed the assembly's output order from {before} to {after}")


def body_pipeline(case, rec):
    """scaffold order in the remapper's output for maps without any painted scaffold (all scaffolds unplaced)"""
    import re

    from vf import remap

    rec.note(case, len(case["input"]) >= 10, ())
    try:
        res = remap.run_api(case)
    except Exception as e:  # noqa: BLE001
        raise Violation(f"remapping an unpainted model map raised {type(e).__name__}: {e}") from e
    for k, asm in res.assemblies.items():
        names = [s.name for s in asm.scaffolds]
        keyf = lambda n: [int(x) if x.isdigit() else x for x in re.split(r"(\d+)", n)]  # noqa: E731
        if names != sorted(names, key=keyf):
            raise Violation(f"assembly {k}: unplaced scaffolds are not written in numeric-aware name order: {names}")


def body_files(case, rec):
    """
    Object order in the FILES pretext-to-asm writes. Each assembly the remapper returns must be in (rank, name key)
    order and each file must list its assembly's scaffolds in that order; in Primary mode the all_haplotigs file is the
    other curated assemblies one after the other, each in its own (rank, name key) order.
    """
    from vf import ref, remap

    try:
        res = remap.run_api(case)
    except Exception:  # noqa: BLE001 -- tagging errors are C09's / C10's subject
        rec.note(case, False, {"error"})
        return
    per_asm = {}
    for k, asm in res.assemblies.items():
        order = [(s.rank, s.name) for s in asm.scaffolds]
        if [(r, key(n)) for r, n in order] != sorted((r, key(n)) for r, n in order):
            raise Violation(f"assembly {k}: scaffolds are not in (rank, numeric-aware name) order: {order}")
        per_asm[k] = (asm, [n for _r, n in order])
    want = {}
    if "Primary" in per_asm:
        want["x.1.primary.curated.agp"] = per_asm["Primary"][1]
        merged = [n for k, (asm, names) in per_asm.items() if k != "Primary" and getattr(asm, "curated", False) for n in names]
        if merged:
            want["x.1.all_haplotigs.curated.agp"] = merged
    elif None in per_asm and len([k for k, (a, _n) in per_asm.items() if getattr(a, "curated", False)]) == 1:
        want["x.1.primary.curated.agp"] = per_asm[None][1]
    ranks_present = {r for _a, (asm, _n) in per_asm.items() for r in [s.rank for s in asm.scaffolds]}
    rec.note(case, len(ranks_present) >= 2 and bool(want), {"primary_mode"} if "Primary" in per_asm else {"plain"})
    if not want:
        return
    d = remap.scratch_dir("vf-c20-")
    try:
        (d / "input.agp").write_text(remap.input_text(case, "agp"))
        (d / "map.agp").write_text(remap.map_agp_text(case))
        (d / "out").mkdir()
        r = remap.run_cli_inprocess(["-a", d / "input.agp", "-p", d / "map.agp", "-o", d / "out" / "x.1.agp", "-c", case["prefix"]])
        if r.exit_code != 0:
            raise Violation(f"pretext-to-asm failed although the API run completed: {r.exception!r}")
        for fname, names in want.items():
            f = d / "out" / fname
            if not f.exists():
                raise Violation(f"{fname} was not written; files: {sorted(x.name for x in (d / 'out').iterdir())}")
            got = [n for n, _rows in ref.read_agp(f.read_text())[1]]
            if got != names:
                raise Violation(f"{fname}: objects are written in the order {got}, the assemblies' (rank, name) order is {names}")
    finally:
        remap.rmtree(d)


@st.composite
def pipeline_cases(draw):
    from vf import gen

    t = draw(gen.texel(small=True))
    n = draw(st.integers(3, 14))
    inp = []
    pat = draw(st.sampled_from(["scaffold_{}", "ctg{}", "s{}"]))
    for i in draw(st.permutations(range(1, n + 1))):
        ln = draw(st.integers(4, 60)) * max(1, int(t))
        inp.append([pat.format(i), [["F", f"c{i}", 1, ln, 1]]])
    m = draw(gen.model_map(inp, t, painted=False, cut=False))
    return {"t": gen.texel_str(t), "input": inp, "map": m, "prefix": "SUPER_"}


ALPHA = "IVX012_a"


def small_scope_cases(tier, shard, nshards):
    for n in range(1, 5):
        for first in ALPHA:
            k = (n * 8 + ALPHA.index(first)) % nshards
            if k == shard:
                yield {"len": n, "first": first}


def body_small(case, rec):
    n, first = case["len"], case["first"]
    names = [first + "".join(t) for t in itertools.product(ALPHA, repeat=n - 1)]
    rec.note(case, True, ())
    rec.count("names", len(names))
    keys = {nm: key(nm) for nm in names}
    a = sort_names(names)
    b = sort_names(names[::-1])
    if [keys[x] for x in a] != [keys[x] for x in b]:
        raise Violation(f"names of length {n} starting with {first}: order depends on the initial permutation")
    # against every other length-<=2 name as well, so that mixed shapes are compared
    others = ["".join(t) for k in (1, 2) for t in itertools.product(ALPHA, repeat=k)]
    must(lambda: sorted(names + others, key=lambda nm: keys.get(nm) or key(nm)), what="sorting mixed shapes")
    # numeric relations inside this slice
    for nm in names:
        for d, e in (("1", "2"), ("0", "1"), ("2", "10")):
            if nm.endswith(d) and not nm[:-1][-1:].isdigit():
                lo, hi = nm, nm[:-1] + e
                if not (key(lo) < key(hi)):
                    raise Violation(f"key({lo!r}) is not below key({hi!r})")


name_chars = st.sampled_from(list("abcXYZIVIVIV0123456789_-.") + ["II", "III", "IV", "IIII", "00", "10", "_unloc_"])


@st.composite
def name(draw):
    return "".join(draw(st.lists(name_chars, min_size=1, max_size=7)))


@st.composite
def set_cases(draw):
    names = draw(st.lists(name(), min_size=2, max_size=12))
    perm = draw(st.permutations(range(len(names))))
    ranks = [draw(st.sampled_from([0, 1, 2, 3])) for _ in names]
    return {"names": names, "perm": list(perm), "ranks": ranks}


@st.composite
def numeric_cases(draw):
    kind = draw(st.sampled_from(["decimal", "decimal", "numeral", "unloc", "rank", "prefix_pair", "long"]))
    p = draw(st.sampled_from(["SUPER_", "CHR", "chr_", "LG", "scaffold_", "a.b-", "x", "Hap1_s", ""]))
    s = draw(st.sampled_from(["", "_unloc_1", "A", "B", "_x", ".q", "-r"]))
    case = {"kind": kind, "p": p, "s": s, "a": 0, "b": 0}
    if kind == "decimal":
        if draw(st.integers(0, 3)) == 0:
            # numbers beyond 2**53 / 2**64 that differ only in their last digits (time stamps, accession-like ids)
            a = draw(st.sampled_from([2**53, 2**63, 2**64, 10**20, 10**30])) + draw(st.integers(-3, 1000))
            case["a"], case["b"] = a, a + draw(st.integers(1, 3))
        else:
            a = draw(st.integers(0, 10**6))
            case["a"], case["b"] = a, a + draw(st.integers(1, 10**6))
        if p == "":
            case["p"] = "q"
    elif kind == "numeral":
        a = draw(st.integers(1, 3))
        case["a"], case["b"] = a, draw(st.integers(a + 1, 4))
        case["p"] = draw(st.sampled_from(["SUPER_", "chr_", "CHR", "LG", "chr"]))
        case["s"] = draw(st.sampled_from(["", "_unloc_1", "_x", ".q"]))
    elif kind == "unloc":
        case["a"] = draw(st.integers(1, 30))
        case["p"] = draw(st.sampled_from(["SUPER_", "CHR", "chr_", "LG"]))
    elif kind == "long":
        case["a"] = draw(st.sampled_from([50, 200, 254, 255, 256, 257, 400]))
        case["p"] = draw(st.sampled_from(["SUPER_", "ctg", "x."]))
        case["s"] = draw(st.sampled_from(["", "_unloc_1"]))
    else:
        n = draw(st.integers(2, 8))
        case["names"] = [draw(name()) for _ in range(n)]
        case["ranks"] = [draw(st.sampled_from([0, 1, 2, 3])) for _ in range(n)]
        case["overlap_results"] = draw(st.integers(0, 2)) == 0
    return case


@st.composite
def history_cases(draw):
    n = draw(st.integers(2, 8))
    style = draw(st.integers(0, 1))
    rounds = []
    for _ in range(draw(st.integers(2, 3))):
        if style == 0:
            # the pipeline's pattern: provisional Pretext names, then chromosome names by size
            pre = draw(st.sampled_from(["Scaffold_", "SUPER_", "scaffold_", "chr"]))
            nums = draw(st.permutations(range(1, n + 1)))
            rounds.append([f"{pre}{k}" for k in nums])
        else:
            rounds.append([draw(name()) for _ in range(n)])
    case = {"rounds": rounds}
    if draw(st.integers(0, 2)) == 0:
        case["ranks"] = [draw(st.integers(1, 3)) for _ in range(n)]
    return case


SUBS = [
    Sub("sets", kind="hyp", strategy=set_cases, body=body_sets,
        budget={"quick": 24000, "thorough": 500000}, desc="name sets x two permutations: never raises, same key sequence, rank first"),
    Sub("numeric", kind="hyp", strategy=numeric_cases, body=body_numeric,
        budget={"quick": 8000, "thorough": 100000}, desc="metamorphic: decimal value order, I<II<III<IV, unlocs after their chromosome, rank before name"),
    Sub("pipeline", kind="hyp", strategy=pipeline_cases, body=body_pipeline,
        budget={"quick": 4000, "thorough": 60000}, desc="order of unplaced scaffolds written by the remapper for maps without a painted scaffold (3-14 scaffolds in drawn input and map order)"),
    Sub("files", kind="hyp", strategy=lambda: st.one_of(
            __import__("vf.gen", fromlist=["x"]).tagged_case(max_scaffolds=6, max_contigs=3, two_haplotypes=True, primary_mode=True, many_painted=True, unprefixed_in_primary=True),
            __import__("vf.gen", fromlist=["x"]).tagged_case(max_scaffolds=6, max_contigs=3, two_haplotypes=False, many_painted=True)),
        body=body_files, shrink=False,
        budget={"quick": 320, "thorough": 4000}, desc="object order in the files pretext-to-asm writes (primary file; in Primary mode the merged all_haplotigs file) = (rank, name key) order of the source assemblies"),
    Sub("history", kind="hyp", strategy=history_cases, body=body_history,
        budget={"quick": 6000, "thorough": 100000}, desc="sort / rename the same scaffold objects / sort again: order depends on current names only"),
    Sub("small_scope", kind="enum", cases=small_scope_cases, body=body_small, exhaustive=True,
        budget={"quick": 1, "thorough": 1}, desc="all 4680 names of length <= 4 over {I,V,X,0,1,2,_,a}"),
]
