"""C04 - FASTA index and derived assembly describe the file exactly."""

from hypothesis import strategies as st

from tola.assembly.fragment import Fragment
from tola.fasta.index import FastaIndex, index_fasta_file

from vf import conv, fa, gen, ref
from vf.runner import Sub, Violation, must

ID = "C04"
LEVEL = "exploration"
RULE = (
    "case = (FASTA file as records [name, description, residues, width, eol] + final-newline flag, buffer size, probe "
    "intervals). 1-6 records; lengths 0, 1, width-1, width, width+1, k*width and arbitrary up to 12 lines; widths 1-80; LF "
    "or CRLF per record; residues run-structured over ACGTacgt, N/n, other IUPAC and *-.xXuU with runs of 1-200; names over "
    "printable ASCII + a UTF-8 letter (sometimes containing characters that are white space for str.split but not for faidx), "
    "optional description after space or tab (sometimes latin-1 bytes that are not valid UTF-8); final newline present or absent; buffer "
    "sizes 1,2,3,7,width+-1,64,250000. Oracle: reference reader (vf/ref.py read_fasta, split on headers, offsets by counting "
    "bytes): names+order, length, offset, residues/bytes per line (when the record has a terminated sequence line), "
    "sequence_bytes for ALL intervals when length <= 40 else 60 drawn + line-boundary intervals, derived assembly = "
    "run-length encoding of 'is ACGT', streaming it back = record with non-ACGT replaced by N, .fai text. Negative "
    "sub-check: duplicate names and record-less files must raise. Non-trivial = a multi-line record with a non-ACGT run "
    "touching a line boundary, or CRLF, or no final newline, or a length that is an exact multiple of the width; distinct by SHA-1."
)
ASSUMPTIONS = [
    "well-formed = every record's lines have one width except the last, one line terminator per record, no blank lines",
    "for a record without a terminated sequence line the residues-per-line / bytes-per-line pair is not compared (not defined by the statement)",
]


def classes_of(plain):
    cl = set()
    for name, desc, seq, width, eol, *_more in plain["records"]:
        if _more:
            cl.add("blank_line_after_record")
        n = len(seq)
        if eol == "\r\n":
            cl.add("crlf")
        if n == 0:
            cl.add("empty_record")
        if n and n % width == 0:
            cl.add("length_multiple_of_width")
        if n > width:
            cl.add("multi_line")
            for k in range(width, n, width):
                a, b = seq[k - 1] in gen.ACGT, seq[k] in gen.ACGT
                if not a or not b:
                    cl.add("non_acgt_at_line_boundary")
        if desc:
            cl.add("description")
        if any(ord(c) > 127 for c in desc) or any(c in name for c in gen.EXOTIC_NAME_PARTS):
            cl.add("non_utf8_description_or_unicode_space_in_name")
    if not plain["final_newline"]:
        cl.add("no_final_newline")
    return cl


def nontrivial(cl):
    return bool(cl & {"non_acgt_at_line_boundary", "crlf", "no_final_newline", "length_multiple_of_width"})


def probes(n, width, pairs):
    out = set()
    if n <= 40:
        return [(a, b) for a in range(1, n + 1) for b in range(a, n + 1)]
    for x, y in pairs:
        a = 1 + x % n
        b = a + y % (n - a + 1)
        out.add((a, b))
    for k in range(width, n, width):
        for a in (k - 1, k, k + 1):
            if 1 <= a <= n:
                out.add((a, min(n, a + width)))
                out.add((max(1, a - width), a))
                out.add((1, a))
                out.add((a, n))
        if len(out) > 400:
            break
    return sorted(out)


def body(case, rec):
    plain = case["fasta"]
    data = gen.fasta_bytes(plain)
    cl = classes_of(plain)
    rec.note(case, nontrivial(cl), cl)
    recs = ref.read_fasta(data)
    buf = case["buffer"]
    with fa.TempFasta(data) as path:
        idx, asm = must(index_fasta_file, path, buf, what=f"index_fasta_file(buffer={buf})")
        if list(idx) != [r["name"] for r in recs]:
            raise Violation(f"record names/order {list(idx)} != {[r['name'] for r in recs]}")
        fai = FastaIndex(path, buf)
        fai.index = idx
        try:
            todo = []
            for r in recs:
                info = idx[r["name"]]
                n = len(r["seq"])
                if (info.length, info.file_offset) != (n, r["offset"]):
                    raise Violation(f"{r['name']}: length/offset ({info.length},{info.file_offset}) != reference ({n},{r['offset']})")
                if r["linebytes"] is not None and (info.residues_per_line, info.max_line_length) != (r["width"], r["linebytes"]):
                    raise Violation(
                        f"{r['name']}: residues/bytes per line ({info.residues_per_line},{info.max_line_length}) != reference ({r['width']},{r['linebytes']})")
                if n == 0:
                    continue
                todo.extend((r, info, a, b) for a, b in probes(n, r["width"] or 1, case["pairs"]))
            # one index object serves all probes, in an order drawn with the case (records interleaved,
            # intervals neither sorted nor nested), so that state kept between reads matters
            keys = case["pairs"]
            order = sorted(range(len(todo)), key=lambda k: (keys[k % len(keys)][0] * 31 + k * keys[(k // len(keys)) % len(keys)][1]) % 1000003)
            for k in order:
                r, info, a, b = todo[k]
                got = must(fai.sequence_bytes, info, a, b, what=f"sequence_bytes({r['name']},{a},{b})").getvalue()
                rec.count("intervals")
                if got != r["seq"][a - 1 : b]:
                    raise Violation(f"{r['name']}:{a}-{b}: random access returned {got[:60]!r}, file has {r['seq'][a - 1 : b][:60]!r}")
                if k % 5 == 0:
                    # the documented chunk iterators, with all chunks COLLECTED before any is read
                    chunks = list(must(fai.get_sequence_iter, Fragment(r["name"], a, b, 1), what="get_sequence_iter"))
                    joined = b"".join(c.getvalue() for c in chunks)
                    if joined != r["seq"][a - 1 : b]:
                        raise Violation(f"{r['name']}:{a}-{b}: chunks of get_sequence_iter (collected, then read) give {joined[:60]!r}, file has {r['seq'][a - 1 : b][:60]!r}")
                    rchunks = list(must(fai.get_sequence_iter, Fragment(r["name"], a, b, -1), what="get_sequence_iter(-)"))
                    rjoined = b"".join(c.getvalue() for c in rchunks)
                    if rjoined != ref.revcomp(r["seq"][a - 1 : b]):
                        raise Violation(f"{r['name']}:{a}-{b}(-): chunks of get_sequence_iter give {rjoined[:60]!r}, want {ref.revcomp(r['seq'][a - 1 : b])[:60]!r}")
                    if any(len(c.getvalue()) > buf for c in chunks + rchunks):
                        raise Violation(f"{r['name']}:{a}-{b}: a chunk is longer than the buffer size {buf}")
            # derived assembly
            got_asm = conv.plain_assembly(asm)
            want_asm = []
            for r in recs:
                rows = []
                for is_seq, a, b in ref.acgt_runs(r["seq"]):
                    rows.append(["F", r["name"], a, b, 1] if is_seq else ["G", b - a + 1, "scaffold"])
                want_asm.append([r["name"], rows])
            if got_asm != want_asm:
                for g, w in zip(got_asm, want_asm):
                    if g != w:
                        raise Violation(f"derived assembly of {w[0]}: {g[1][:6]} != run-length reference {w[1][:6]}")
                raise Violation("derived assembly differs in scaffold count")
            # streaming it back
            if len(case["pairs"]) and case["pairs"][0][0] % 3 == 0:
                # the same index object served a stream with another gap character (soft-masked output) before
                masked = must(fa.stream_bytes, fai, asm, 60, b"n", what="streaming the derived assembly with gap character n")
                want_masked = b"".join(b">" + r["name"].encode() + b"\n" + ref.wrap(bytes(c if c in gen.ACGT.encode() else 110 for c in r["seq"]), 60) for r in recs)
                if masked != want_masked:
                    raise Violation(f"streaming with gap character 'n' differs: {masked[:80]!r} vs {want_masked[:80]!r}")
            streamed = must(fa.stream_bytes, fai, asm, what="streaming the derived assembly")
            good = gen.ACGT.encode()
            want = b"".join(b">" + r["name"].encode() + b"\n" + ref.wrap(bytes(c if c in good else 78 for c in r["seq"]), 60) for r in recs)
            if streamed != want:
                raise Violation(f"streaming the derived assembly back differs: {streamed[:80]!r} vs {want[:80]!r}")
        finally:
            fa.close(fai)
        # .fai / .agp written beside the file
        fai2 = FastaIndex(path, buf)
        must(fai2.run_indexing, what="run_indexing")
        # a second object that finds the cache written above must hold the same index
        fai3 = FastaIndex(path, buf)
        try:
            fai3.auto_load()
        except Exception:  # noqa: BLE001 -- a loud failure is acceptable here (e.g. a name the .fai columns cannot carry); C15 covers it
            rec.count("cache_reload_raised")
        else:
            if [(n, *fa.info_tuple(i)) for n, i in fai3.index.items()] != [(n, *fa.info_tuple(i)) for n, i in idx.items()]:
                raise Violation(f"index loaded from the cache {list(fai3.index)} differs from the one just built {list(idx)}")
        lines = path.with_name(path.name + ".fai").read_text().split("\n")
        if lines[-1] != "" or len(lines) - 1 != len(recs):
            raise Violation(f".fai has {len(lines) - 1} lines for {len(recs)} records")
        for line, r in zip(lines, recs):
            f = line.split("\t")
            want = [r["name"], str(len(r["seq"])), str(r["offset"])]
            if f[:3] != want or (r["linebytes"] is not None and f[3:] != [str(r["width"]), str(r["linebytes"])]):
                raise Violation(f".fai row {f} != reference {want + [r['width'], r['linebytes']]}")


def body_module_cli(case, rec):
    """`python -m tola.fasta.index <file>` prints the .fai rows"""
    import subprocess
    import sys

    from vf.remap import cli_env

    plain = case["fasta"]
    data = gen.fasta_bytes(plain)
    cl = classes_of(plain)
    rec.note(case, nontrivial(cl), cl)
    recs = ref.read_fasta(data)
    with fa.TempFasta(data) as path:
        r = subprocess.run([sys.executable, "-m", "tola.fasta.index", str(path)], capture_output=True, env=cli_env(), timeout=120)
        if r.returncode != 0:
            raise Violation(f"python -m tola.fasta.index failed: {r.stderr[-300:]!r}")
        lines = r.stdout.decode("utf-8", "replace").split("\n")[:-1]
        if len(lines) != len(recs):
            raise Violation(f"python -m tola.fasta.index printed {len(lines)} rows for {len(recs)} records")
        for line, rr in zip(lines, recs):
            f = line.split("\t")
            want = [rr["name"], str(len(rr["seq"])), str(rr["offset"])]
            if f[:3] != want or (rr["linebytes"] is not None and f[3:] != [str(rr["width"]), str(rr["linebytes"])]):
                raise Violation(f"python -m tola.fasta.index row {f} != reference {want + [rr['width'], rr['linebytes']]}")


def body_negative(case, rec):
    kind = case["kind"]
    rec.note(case, True, {kind})
    if kind == "duplicate":
        plain = case["fasta"]
        data = gen.fasta_bytes(plain)
    else:
        data = case["text"].encode()
    with fa.TempFasta(data) as path:
        try:
            index_fasta_file(path, case["buffer"])
        except Exception:  # noqa: BLE001  -- "rejected with an error"
            return
        raise Violation(f"{kind}: indexing succeeded on {data[:80]!r}")


BUFFERS = [1, 2, 3, 7, 64, 250000]

LONG_WIDTHS = [8191, 8192, 8193, 65535, 65536, 65537, 131072, 1048575, 1048576, 1048577, 1348576]


def pseudo_residues(n, salt):
    """n residues, aperiodic (SHA-256 counter stream), mostly ACGT with runs of N and a few other symbols"""
    import hashlib

    out = bytearray()
    k = 0
    while len(out) < n:
        out += hashlib.sha256(f"{salt}:{k}".encode()).digest()
        k += 1
    table = bytes(b"ACGTacgt"[i % 8] if i < 248 else b"NnRy*-NN"[i - 248] for i in range(256))
    seq = bytearray(bytes(out[:n]).translate(table))
    # a few longer N runs, two of them across a multiple of 2**16 / the end
    for at, ln in ((n // 3, 700), (65536 - 3, 9), (n - 5, 5)):
        if 0 <= at and at + ln <= n:
            seq[at : at + ln] = b"N" * ln
    return seq.decode("latin-1")


def long_line_cases(tier, shard, nshards):
    """unwrapped or very widely wrapped records: line widths around 2**13, 2**16, 2**20 and beyond"""
    k = 0
    for width in LONG_WIDTHS:
        for eol in ("\n", "\r\n"):
            for buf in (250000, 4096):
                k += 1
                if k % nshards != shard:
                    continue
                recs = [
                    ["long1", "", pseudo_residues(2 * width + 17, f"a{width}"), width, eol],
                    ["one_line", "unwrapped", pseudo_residues(width, f"b{width}"), width, eol],
                    ["short_last", "", pseudo_residues(width + 1, f"c{width}"), width, eol],
                ]
                pairs = [[(i * 7919 + width) % 10**6, (i * 104729 + 13) % 10**6] for i in range(12)]
                yield {"fasta": {"records": recs, "final_newline": k % 3 != 0}, "buffer": buf, "pairs": pairs}


@st.composite
def cases(draw):
    f = draw(gen.fasta_file(exotic_headers=True))
    widths = [r[3] for r in f["records"]]
    buf = draw(st.sampled_from(BUFFERS + [max(1, widths[0] - 1), widths[0] + 1, widths[-1]]))
    pairs = draw(st.lists(st.tuples(st.integers(0, 10**6), st.integers(0, 10**6)).map(list), min_size=60, max_size=60))
    return {"fasta": f, "buffer": buf, "pairs": pairs}


@st.composite
def negative_cases(draw):
    kind = draw(st.sampled_from(["duplicate", "duplicate", "no_records"]))
    buf = draw(st.sampled_from(BUFFERS))
    if kind == "duplicate":
        f = draw(gen.fasta_file(max_records=4))
        i = draw(st.integers(0, len(f["records"]) - 1))
        dup = list(draw(gen.fasta_record(99)))
        dup[0] = f["records"][i][0]
        f["records"].insert(draw(st.integers(i + 1, len(f["records"]))), dup)
        return {"kind": kind, "fasta": f, "buffer": buf}
    text = draw(st.sampled_from(["", "\n", "ACGT\n", "# comment\nACGT\nACGT\n", " >x\nACGT\n", "\n\n"]))
    return {"kind": kind, "text": text, "buffer": buf}


SUBS = [
    Sub("index", kind="hyp", strategy=cases, body=body,
        budget={"quick": 8000, "thorough": 200000}, desc="index quintuples, random access, derived assembly, stream-back, .fai text vs reference reader"),
    Sub("long_lines", kind="enum", cases=long_line_cases, body=body,
        budget={"quick": 44, "thorough": 44}, desc="records with sequence lines of 8 KiB - 1.3 MiB (widths around 2**13, 2**16, 2**20), LF/CRLF, two buffer sizes; same oracle as 'index'"),
    Sub("module_cli", kind="hyp", strategy=cases, body=body_module_cli, shrink=False,
        budget={"quick": 96, "thorough": 2000}, desc="`python -m tola.fasta.index FILE` (the module's command-line entry) prints the reference .fai rows"),
    Sub("negative", kind="hyp", strategy=negative_cases, body=body_negative,
        budget={"quick": 800, "thorough": 10000}, desc="duplicate record names and record-less files must be rejected"),
]
