"""C09 - tags route sequence to the documented destination assembly."""

import math

from hypothesis import strategies as st

from vf import conv, gen, ref, remap
from vf.props.c01 import bait_hits
from vf.runner import Sub, Violation

ID = "C09"
LEVEL = "exploration"
RULE = (
    "case = (texel size, input assembly, PretextView-model map decorated with a consistent tagging, autosome prefix). "
    "Taggings are constructed, not filtered: single haplotype or two haplotypes (homologue-group layout H1 (H2){0,2}, "
    "Singleton on unpartnered first-haplotype scaffolds, haplotype tag on every painted scaffold, haplotype-prefixed "
    "FASTA-shaped input names for unplaced scaffolds, spelling case varied), painted or not, optional name tags, Target mode "
    "from a drawn scaffold on, piece tags Haplotig / Contaminant / FalseDuplicate on any piece (first, middle, last; painted or "
    "unpainted scaffold), Unloc on painted scaffolds; scaffold-level tags on the first piece or on every piece. Oracle: the "
    "expected destination of every piece is computed from the statement alone (piece tag, else Target rule, else haplotype tag, "
    "else haplotype prefix of the input name, else primary); the piece's core (C02 margin) must be found in exactly that "
    "assembly; contigs hit by no bait must sit whole in theirs. Sub-check cli: same through the CLI, judged by file name. "
    "Non-trivial = run completed AND (a tagged piece shares its Pretext scaffold with an untagged piece, or Target mode with "
    "left-over contigs, or a haplotype-prefixed unplaced scaffold); distinct by SHA-1. Runs ending in TaggingError / "
    "ChrNamerError are counted, not judged."
)
ASSUMPTIONS = [
    "a piece carries at most one of Haplotig / Contaminant / FalseDuplicate; piece tags win over scaffold state",
    "in two-haplotype maps an unplaced Pretext scaffold draws its pieces from input scaffolds of one haplotype (the documented use)",
    "haplotype assembly keys are compared case-insensitively (the first spelling seen sets the case)",
]

PIECE_TAGS = ("Haplotig", "Contaminant", "FalseDuplicate")


def expected_destinations(case):
    """per map piece: expected assembly key (lower case) - derived from the statement only"""
    haps = [h.lower() for h in case.get("haps", [])]
    out = []
    target_seen = False
    primary_hap = None  # set once a Primary tag has been seen: that haplotype's sequence goes to the "primary" assembly

    def keyed(h):
        return "primary" if h is not None and h == primary_hap else h

    for pname, rows in case["map"]:
        frs = [r for r in rows if r[0] == "F"]
        sc_tags = {t for r in frs for t in r[5]}
        if "Target" in sc_tags:
            target_seen = True
        hap = next((h for h in haps if any(t.lower() == h for t in sc_tags)), None)
        painted = "Painted" in sc_tags
        if "Primary" in sc_tags and primary_hap is None:
            primary_hap = hap or next((h for h in haps if frs[0][1].lower().startswith(h + "_")), None)
        for r in frs:
            ptag = next((t for t in PIECE_TAGS if t in r[5]), None)
            if ptag:
                dest = ptag.lower()
            elif target_seen and "Target" not in sc_tags:
                dest = "contaminant"
            elif hap:
                dest = keyed(hap)
            else:
                h = next((h for h in haps if frs[0][1].lower().startswith(h + "_")), None)
                dest = keyed(h) if h else "none"
            out.append((pname, r, dest, painted))
    left = "contaminant" if target_seen else None
    return out, left, primary_hap


def key_lc(k):
    return "none" if k is None else str(k).lower()


def judge(case, outs, classes):
    """outs: list of (key_lc, scaffold name, plain rows)"""
    t = float(case["t"])
    M = 3 * (1 + math.floor(t))
    input_rows = {n: r for n, r in case["input"]}
    lengths = {n: ref.rows_len(r) for n, r in case["input"]}
    dests, left_dest, primary_hap = expected_destinations(case)
    haps = [h.lower() for h in case.get("haps", [])]
    if primary_hap:
        classes.add("primary_mode")
    by_scaffold = {}
    for pname, r, dest, painted in dests:
        by_scaffold.setdefault(pname, []).append((r, dest))
    for pname, lst in by_scaffold.items():
        kinds = {d for _r, d in lst}
        if len(kinds) > 1 and kinds & {"haplotig", "contaminant", "falseduplicate"}:
            classes.add("tagged_piece_shares_scaffold_with_other_destination")
    for pname, r, dest, painted in dests:
        S, s, e, o = r[1], r[2], r[3], r[4]
        lo, hi = s + M + 1, min(e, lengths[S]) - M - 1
        if lo > hi:
            continue
        segs = ref.core_segments(input_rows[S], lo, hi, o)
        if not segs:
            continue
        found, _reasons = ref.find_run(segs, outs)
        where = sorted({f[0] for f in found})
        classes.add("dest_" + ("hap" if dest in haps else dest))
        if dest == "falseduplicate" and primary_hap:
            classes.add("falseduplicate_in_primary_mode")
        if where != [dest]:
            # fall back to locating the first core contig, for the message
            first = segs[0]
            holders = sorted({k for k, _n, rows in outs for row in rows if row[0] == "F" and row[1] == first[1] and row[2] <= first[3] and first[2] <= row[3]})
            raise Violation(
                f"piece {S}:{s}-{e} tags {r[5]} of {pname}: expected in assembly '{dest}', core found in {where or holders}")
    # left-over contigs
    hits = bait_hits(case)
    for name, rows in case["input"]:
        for r in rows:
            if r[0] == "F" and hits[tuple(r[1:4])] == 0:
                if left_dest:
                    want = left_dest
                    classes.add("target_mode_with_leftovers")
                else:
                    h = next((h for h in haps if name.lower().startswith(h + "_")), None)
                    want = ("primary" if h == primary_hap else h) if h else "none"
                    if h:
                        classes.add("hap_prefixed_leftover")
                holders = sorted({k for k, _n, orows in outs for row in orows if row[0] == "F" and row[1:4] == r[1:4]})
                if holders != [want]:
                    raise Violation(f"contig {r[1]}:{r[2]}-{r[3]} of {name} is absent from the map: expected whole in '{want}', found in {holders}")
    for pname, r, dest, painted in dests:
        if not painted and dest in haps and not any(t.lower() == dest for t in r[5]):
            classes.add("hap_prefixed_unplaced_scaffold")


def nontrivial(cl):
    return bool(cl & {"tagged_piece_shares_scaffold_with_other_destination", "target_mode_with_leftovers",
                      "hap_prefixed_unplaced_scaffold", "hap_prefixed_leftover", "primary_mode"})


def body_api(case, rec):
    classes = {"two_haplotypes" if case.get("haps") else "single_haplotype"}
    try:
        res = remap.run_api(case)
    except Exception as e:  # noqa: BLE001 -- counted, not judged
        rec.note(case, False, classes | {"error", "error_" + type(e).__name__})
        return
    outs = [(key_lc(k), s.name, conv.plain_rows(s.rows, with_tags=False)) for k, s in res.all_scaffolds()]
    try:
        keys = [key_lc(k) for k in res.assemblies]
        if len(set(keys)) != len(keys):
            raise Violation(f"one haplotype is split over several assemblies that differ only in case: {list(res.assemblies)}")
        judge(case, outs, classes)
    finally:
        rec.note(case, nontrivial(classes), classes | {"completed"})


def body_reuse(case, rec):
    """
    The same IndexedAssembly object is remapped with a first map (often in Target mode) and then with the
    case's own map; the second result is judged as usual (nothing of the first run may stick to the input).
    """
    classes = {"input_reused"}
    first = dict(case, map=case["first_map"])
    input_asm, _p = remap.build_inputs(case)
    try:
        remap.run_api(first, input_asm=input_asm)
    except Exception:  # noqa: BLE001
        classes.add("first_run_error")
    try:
        res = remap.run_api(case, input_asm=input_asm)
    except Exception as e:  # noqa: BLE001
        rec.note(case, False, classes | {"error", "error_" + type(e).__name__})
        return
    outs = [(key_lc(k), s.name, conv.plain_rows(s.rows, with_tags=False)) for k, s in res.all_scaffolds()]
    try:
        judge(case, outs, classes)
    finally:
        rec.note(case, True, classes | {"completed"})


@st.composite
def reuse_cases(draw):
    c = draw(gen.tagged_case(two_haplotypes=False, target_mode=False, max_scaffolds=5, max_contigs=4))
    # first map on the same input: Target mode, only some scaffolds present (the others are "absent from the map")
    first = []
    names = [n for n, _r in c["input"]]
    lengths = {n: ref.rows_len(r) for n, r in c["input"]}
    for k, n in enumerate(names):
        if draw(st.booleans()):
            tags = ["Target"] if k == 0 or draw(st.booleans()) else []
            first.append([f"Scaffold_{len(first) + 1}", [["F", n, 1, lengths[n], 1, tags]]])
    if not first:
        first.append(["Scaffold_1", [["F", names[0], 1, lengths[names[0]], 1, ["Target"]]]])
    first[0][1][0][5] = ["Target"]
    c["first_map"] = first
    return c


FILE_WORDS = {"haplotig": ("haplotigs",), "contaminant": ("contaminants",), "falseduplicate": ("falseduplicates",)}


def body_mixed_unplaced(case, rec):
    """
    Unpainted Pretext scaffolds that hold pieces of both haplotypes' input scaffolds. Judged is only what the statement
    says about unplaced scaffolds: one whose (input) name starts with a haplotype's name sits in that haplotype's assembly.
    """
    haps = [h.lower() for h in case.get("haps", [])]
    try:
        res = remap.run_api(case)
    except Exception as e:  # noqa: BLE001
        rec.note(case, False, {"error", "error_" + type(e).__name__})
        return
    primary = key_lc(getattr(res.build.scaffold_namer, "primary_haplotype", None)) if hasattr(res.build, "scaffold_namer") else None
    mixed = any(len({next((h for h in haps if r[1].lower().startswith(h + "_")), None) for r in rows if r[0] == "F"}) > 1
                for _pn, rows in case["map"] if not any("Painted" in r[5] for r in rows if r[0] == "F"))
    rec.note(case, mixed, {"mixed_unplaced_scaffold"} if mixed else set())
    for k, sc in res.all_scaffolds():
        key = key_lc(k)
        if key in ("haplotig", "contaminant", "falseduplicate") or sc.rank != 3:
            continue
        h = next((h_ for h_ in haps if sc.name.lower().startswith(h_ + "_")), None)
        if h is None:
            continue
        if key not in (h, "primary"):
            raise Violation(f"unplaced scaffold {sc.name} (name starts with haplotype {h}) was put into assembly {key!r}")
        if key == "primary" and primary not in (None, "none") and primary != h:
            raise Violation(f"unplaced scaffold {sc.name} (haplotype {h}) sits in the Primary assembly although the primary haplotype is {primary}")


def body_cli(case, rec):
    classes = {"cli", "two_haplotypes" if case.get("haps") else "single_haplotype"}
    d = remap.scratch_dir("vf-c09-")
    try:
        inp = d / "input.agp"
        inp.write_text(remap.input_text(case, "agp"))
        mp = d / "map.agp"
        mp.write_text(remap.map_agp_text(case))
        out = d / "out" / "x.1.agp"
        out.parent.mkdir()
        res = remap.run_cli_inprocess(["-a", inp, "-p", mp, "-o", out, "-c", case["prefix"]])
        if res.exit_code != 0:
            rec.note(case, False, classes | {"error"})
            return
        haps = [h.lower() for h in case.get("haps", [])]
        # <root>.<v>.primary.curated.* is the Primary haplotype's assembly if there is one (its scaffolds may all have
        # been tagged away), else the assembly of scaffolds that belong to no haplotype
        try:
            has_primary = "Primary" in remap.run_api(case).assemblies
        except Exception:  # noqa: BLE001
            has_primary = True
        outs = []
        for f in sorted(out.parent.iterdir()):
            if not f.name.endswith(".agp"):
                continue
            nm = f.name
            if "haplotigs" in nm and "all_haplotigs" not in nm:
                key = "haplotig"
            elif "contaminants" in nm:
                key = "contaminant"
            elif "falseduplicates" in nm:
                key = "falseduplicate"
            elif "all_haplotigs" in nm:
                # Primary mode: the haplotypes that are not curated are written together
                key = "other_haplotypes"
            else:
                # haplotype files are <root>.<hap>.<v>.primary.curated.* or, when a primary assembly exists as well, <root>.<v>.<hap>s.curated.*
                import re

                m = re.match(r"x\.(.+)\.1\.primary\.curated\.", nm) or re.match(r"x\.1\.(.+)s\.curated\.", nm)
                key = m.group(1) if m and m.group(1) in haps else ("primary" if case.get("primary_mode") and has_primary else "none")
                if ".curated." not in nm:
                    raise Violation(f"curated assembly file without '.curated.' in its name: {nm}")
            for n, rows in ref.read_agp(f.read_text())[1]:
                outs.append((key, n, [row[:5] if row[0] == "F" else row for row in rows]))
        if any(k == "other_haplotypes" for k, _n, _r in outs):
            # map the merged file back to the haplotype key the statement speaks of
            _d, _l, primary_hap = expected_destinations(case)
            others = [h for h in haps if h != primary_hap]

            def merged_key(rows):
                # the merged file holds the other haplotype's assembly and, if there is one, the assembly of scaffolds
                # that belong to no haplotype: told apart by the haplotype prefix of the scaffold's first contig
                first = next((r[1] for r in rows if r[0] == "F"), "")
                for h in others:
                    if first.lower().startswith(h.lower() + "_"):
                        return h
                return "none" if any(not n_.lower().startswith(tuple(h_.lower() + "_" for h_ in haps)) for n_, _r in case["input"]) else (others[0] if len(others) == 1 else "other_haplotypes")

            outs = [((merged_key(r) if k == "other_haplotypes" else k), n, r) for k, n, r in outs]
        try:
            judge(case, outs, classes)
        finally:
            rec.note(case, nontrivial(classes), classes | {"completed"})
    finally:
        remap.rmtree(d)


SUBS = [
    Sub("api", kind="hyp", strategy=lambda: st.builds(lambda c, k: dict(c, retagged_after_review=True) if k == 0 else c, gen.tagged_case(), st.integers(0, 5)), body=body_api,
        budget={"quick": 16000, "thorough": 300000}, desc="dict returned by assemblies_with_scaffolds_fused vs expected destination per piece"),
    Sub("slivers", kind="hyp", strategy=lambda: gen.tagged_case(slivers=True, max_scaffolds=4, max_contigs=6, piece_tag_weight=3, unloc_weight=50), body=body_api,
        budget={"quick": 6000, "thorough": 100000}, desc="fractional texels, many cuts near contig ends, every third piece tagged: contigs shared by two or three pieces"),
    Sub("mixed_unplaced", kind="hyp", strategy=lambda: gen.tagged_case(two_haplotypes=True, primary_mode=False, mixed_unplaced=True, max_scaffolds=5, max_contigs=3, group_sizes=[2, 3, 2, 1]), body=body_mixed_unplaced,
        budget={"quick": 4000, "thorough": 60000}, desc="unpainted Pretext scaffolds mixing pieces of both haplotypes: an unplaced output scaffold sits in the assembly of the haplotype its name starts with"),
    Sub("reuse", kind="hyp", strategy=reuse_cases, body=body_reuse,
        budget={"quick": 4000, "thorough": 60000}, desc="the same IndexedAssembly object remapped twice (first in Target mode with scaffolds absent, then with the case's map): the second result is judged"),
    Sub("cli_primary", kind="hyp", strategy=lambda: gen.tagged_case(max_scaffolds=6, max_contigs=4, two_haplotypes=True, primary_mode=True, piece_tag_weight=3, unprefixed_in_primary=True), body=body_cli,
        budget={"quick": 160, "thorough": 2000}, desc="Primary mode (one curated haplotype) through the CLI: primary / all_haplotigs / haplotigs / contaminants / falseduplicates files"),
    Sub("cli", kind="hyp", strategy=lambda: gen.tagged_case(max_scaffolds=4, max_contigs=5), body=body_cli,
        budget={"quick": 240, "thorough": 3000}, desc="same through the CLI, destination judged by output file name"),
]
