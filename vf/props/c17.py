"""C17 - outputs are a deterministic function of the input files."""

import os
import shutil
from pathlib import Path

from hypothesis import strategies as st

from vf import gen, ref, remap
from vf.props.c03 import cli_cases as fasta_cli_cases
from vf.props.c03 import fasta_input_plain
from vf.runner import Sub, Violation, repo_dir

ID = "C17"
LEVEL = "exploration"
RULE = (
    "Sub-check process (subprocess per run): case = tagged PretextView-model map with >= 2 tags on a scaffold (incl. one "
    "haplotype tag spelled in two cases on one scaffold) + input as TPF or FASTA; baseline run (PYTHONHASHSEED=0, absolute "
    "paths) vs variants PYTHONHASHSEED in {1, 2, two drawn values} x cwd in {output directory with relative -o, '/', a sibling "
    "directory with ../ paths}: exit status and every output file must be byte-identical (log lines containing an absolute "
    "directory dropped). Sub-check inprocess: FASTA input; cache cold vs warm vs stale-but-not-newer cache of another file vs "
    "small stream buffers (1, 7, 50, 200) vs runs interleaved with a different input in one process (A,B,A / B,A): identical "
    "files. Sub-check formats: the same FASTA-shaped assembly supplied as FASTA, as AGP (the indexer's .agp) and as TPF "
    "(asm-format conversion of it): output assemblies equal row for row (tags included). Sub-check asm_format: asm-format on "
    "generated assemblies to AGP/TPF/STR/REPR with --qc-overlaps under different hash seeds and working directories. Sub-check specimens: real specimens "
    "x hash seeds. Non-trivial = a map with >= 2 distinct tags on one scaffold and >= 1 cut (process / inprocess / formats); "
    "every specimen run; distinct by SHA-1."
)
ASSUMPTIONS = [
    "log files are compared for runs with exit status 0 only; lines that contain the run's absolute directories are dropped (the only exclusion the statement allows)",
    "asm-format determinism is exercised through the formats sub-check (AGP -> TPF conversion run twice)",
]


def files_of(d: Path, drop=()):
    out = {}
    for f in sorted(d.iterdir()):
        data = f.read_bytes()
        if f.name.endswith(".log"):
            lines = [l for l in data.split(b"\n") if not any(str(x).encode() in l for x in drop)]
            data = b"\n".join(lines)
        out[f.name] = data
    return out


def diff_files(base, other, what):
    if sorted(base) != sorted(other):
        raise Violation(f"{what}: file set {sorted(other)} differs from baseline {sorted(base)}")
    for n in base:
        if base[n] != other[n]:
            a, b = base[n].split(b"\n"), other[n].split(b"\n")
            k = next((i for i, (x, y) in enumerate(zip(a, b)) if x != y), min(len(a), len(b)))
            raise Violation(f"{what}: {n} differs from the baseline at line {k + 1}: {a[k:k + 1]} vs {b[k:k + 1]}")


def is_rich(case):
    multi_tag = any(len(set(r[5])) >= 2 for _p, rows in case["map"] for r in rows if r[0] == "F")
    pieces = {}
    for _p, rows in case["map"]:
        for r in rows:
            if r[0] == "F":
                pieces[r[1]] = pieces.get(r[1], 0) + 1
    return multi_tag and any(v > 1 for v in pieces.values())


def write_inputs(case, ind: Path):
    ind.mkdir(parents=True, exist_ok=True)
    if case.get("fasta"):
        src = ind / "asm.fa"
        src.write_bytes(gen.fasta_bytes(case["fasta"]))
    else:
        src = ind / "input.tpf"
        src.write_text(remap.input_text(case, "tpf"))
    mp = ind / "map.agp"
    mp.write_text(remap.map_agp_text(case))
    return src, mp


def body_process(case, rec):
    rec.note(case, is_rich(case), {"fasta_input" if case.get("fasta") else "tpf_input"} | ({"two_spellings"} if case.get("two_spellings") else set()))
    d = remap.scratch_dir("vf-c17-")
    try:
        src, mp = write_inputs(case, d / "in")
        ext = "fa" if case.get("fasta") else "tpf"
        prefix = case.get("prefix", "SUPER_")

        def go(tag, hashseed, cwd_mode):
            outd = d / f"out_{tag}"
            outd.mkdir()
            if case.get("fasta") and tag != "base" and case.get("stale_between"):
                # the index files beside the FASTA are older than it when this run starts (warned about and rebuilt)
                mt = src.stat().st_mtime_ns
                for sfx in (".fai", ".agp"):
                    f = Path(str(src) + sfx)
                    if f.exists():
                        os.utime(f, ns=(mt - 10**10, mt - 10**10))
            if cwd_mode == "abs":
                cwd, a, p, o = "/", src, mp, outd / f"x.1.{ext}"
            elif cwd_mode == "outdir":
                cwd, a, p, o = outd, Path("..") / "in" / src.name, Path("..") / "in" / mp.name, Path(f"x.1.{ext}")
            else:
                sib = d / f"sib_{tag}"
                sib.mkdir()
                cwd, a, p, o = sib, Path("..") / "in" / src.name, Path("..") / "in" / mp.name, Path("..") / outd.name / f"x.1.{ext}"
            extra = ["--log-level", "DEBUG"] if case.get("debug_log") else []
            r = remap.run_cli_subprocess(["-a", a, "-p", p, "-o", o, "-c", prefix, *extra], cwd=cwd, hashseed=hashseed)
            return r.returncode, files_of(outd, drop=(d,)) if r.returncode == 0 else sorted(f.name for f in outd.iterdir() if not f.name.endswith(".log"))

        base_code, base = go("base", "0", "abs")
        for k, (hs, mode) in enumerate(case["variants"]):
            code, got = go(f"v{k}", str(hs), mode)
            if code != base_code:
                raise Violation(f"exit status {code} with PYTHONHASHSEED={hs} cwd={mode}, baseline exit {base_code}")
            if code == 0:
                diff_files(base, got, f"PYTHONHASHSEED={hs} cwd={mode}")
            elif got != base:
                raise Violation(f"failed run left files {got}, baseline failed run left {base}")
    finally:
        remap.rmtree(d)


def run_in(case_dir: Path, src, mp, tag, prefix, ext, fasta_buffer=None):
    outd = case_dir / f"out_{tag}"
    outd.mkdir(exist_ok=True)
    r = remap.run_cli_inprocess(["-a", src, "-p", mp, "-o", outd / f"x.1.{ext}", "-c", prefix], fasta_buffer=fasta_buffer)
    if r.exit_code != 0:
        return r.exit_code, None
    return 0, files_of(outd, drop=(case_dir,))


def body_inprocess(case, rec):
    rec.note(case, is_rich(case), ())
    d = remap.scratch_dir("vf-c17-")
    try:
        src, mp = write_inputs(case, d / "A" / "in")
        other = case["other"]
        src_b, mp_b = write_inputs(other, d / "B" / "in")
        prefix = case.get("prefix", "SUPER_")
        fai, agp = Path(str(src) + ".fai"), Path(str(src) + ".agp")
        code0, base = run_in(d / "A", src, mp, "cold", prefix, "fa")
        if code0 != 0:
            rec.count("baseline_failed")
            return
        if not (fai.exists() and agp.exists()):
            raise Violation("no index cache written beside the FASTA")
        # a later run that writes no log file (in the same process) must leave this run's log alone
        (d / "A" / "out_log2").mkdir(exist_ok=True)
        remap.run_cli_inprocess(["-a", src, "-p", mp, "-o", d / "A" / "out_log2" / "x.1.fa", "-c", prefix], keep_logging_state=True)
        cold_log = (d / "A" / "out_log2" / "x.1.log")
        cold_log_bytes = cold_log.read_bytes() if cold_log.exists() else None
        (d / "A" / "out_nolog").mkdir(exist_ok=True)
        r_nolog = remap.run_cli_inprocess(["-a", src, "-p", mp, "-o", d / "A" / "out_nolog" / "x.1.fa", "-c", prefix, "--no-write-log"])
        if r_nolog.exit_code != 0:
            raise Violation(f"run with --no-write-log failed with exit {r_nolog.exit_code}, the same run with a log succeeded")
        if cold_log_bytes is not None and cold_log.read_bytes() != cold_log_bytes:
            raise Violation("a later run with --no-write-log in the same process changed the log file of the earlier run")
        steps = [("warm", None), ("warm", None)]  # the second one re-runs into the directory the first one filled
        steps += [(f"buf{b}", b) for b in case["buffers"]]
        for tag, buf in steps:
            code, got = run_in(d / "A", src, mp, tag, prefix, "fa", fasta_buffer=buf)
            if code != 0:
                raise Violation(f"run '{tag}' failed with exit {code}, cold run succeeded")
            diff_files(base, got, f"variant {tag}")
        # stale cache: the other file's cache, not strictly newer than the FASTA
        code_b, base_b = run_in(d / "B", src_b, mp_b, "cold", other.get("prefix", "SUPER_"), "fa")
        if code_b == 0:
            shutil.copy(str(src_b) + ".fai", fai)
            shutil.copy(str(src_b) + ".agp", agp)
            mt = src.stat().st_mtime_ns
            which = case.get("stale_which", "both")
            for f in (fai, agp):
                # 'both': neither cache file is newer than the FASTA; 'fai' / 'agp': only that one is not, the other is a second newer
                if which == "both" or f.name.endswith(which):
                    os.utime(f, ns=(mt, mt) if case["stale_equal"] else (mt - 10**9, mt - 10**9))
                else:
                    os.utime(f, ns=(mt + 10**9, mt + 10**9))
            code, got = run_in(d / "A", src, mp, "stale", prefix, "fa")
            if code != 0:
                raise Violation(f"run over a stale index cache failed with exit {code}")
            diff_files(base, got, "stale (not newer) cache of another FASTA present")
        # interleaved invocations in this process: A, B, A and B again
        code, got = run_in(d / "A", src, mp, "again", prefix, "fa")
        if code != 0:
            raise Violation("repeated run failed")
        diff_files(base, got, "run repeated after a run on a different input in the same process")
        if code_b == 0:
            # the output directory already holds the files of a run on OTHER inputs (longer or shorter files of the same
            # names): every file this run writes must still be exactly what a run into an empty directory writes
            code_x, _x = run_in(d / "A", src_b, mp_b, "reused_dir", other.get("prefix", "SUPER_"), "fa")
            code, got = run_in(d / "A", src, mp, "reused_dir", prefix, "fa")
            if code != 0:
                raise Violation("run into a directory that holds the output of a run on other inputs failed")
            for n in base:
                if n not in got or got[n] != base[n]:
                    raise Violation(f"run into a directory that holds the output of a run on other inputs: {n} differs from the run into an empty directory ({len(got.get(n, b''))} vs {len(base[n])} bytes)")
        if code_b == 0:
            code, got = run_in(d / "B", src_b, mp_b, "again", other.get("prefix", "SUPER_"), "fa")
            if code != 0:
                raise Violation("repeated run of the second input failed")
            diff_files(base_b, got, "second input repeated after runs on the first input")
    finally:
        remap.rmtree(d)


def body_inprocess_tpf(case, rec):
    """
    Two different tagged maps run one after the other in ONE process with --log-level DEBUG (the DEBUG log shows
    the chromosome-group table and other internal state); the second run's files must equal those of the same
    run made alone in a fresh process.
    """
    first, second = case["first"], case["second"]
    rec.note(case, bool(first.get("haps")) and bool(second.get("primary_mode") or second.get("haps")),
             {"second_primary_mode"} if second.get("primary_mode") else ())
    d = remap.scratch_dir("vf-c17-")
    try:
        runs = {}
        for tag, c in (("first", first), ("second", second)):
            ind = d / tag / "in"
            ind.mkdir(parents=True)
            (ind / "input.tpf").write_text(remap.input_text(c, "tpf"))
            (ind / "map.agp").write_text(remap.map_agp_text(c))
            runs[tag] = (ind / "input.tpf", ind / "map.agp", c.get("prefix", "SUPER_"))
        src, mp, prefix = runs["second"]
        alone = d / "alone"
        alone.mkdir()
        r = remap.run_cli_subprocess(["-a", src, "-p", mp, "-o", alone / "x.1.tpf", "-c", prefix, "--log-level", "DEBUG"])
        base = (r.returncode, files_of(alone, drop=(d,)))
        for tag in ("first", "second"):
            a, p, pre = runs[tag]
            outd = d / f"seq_{tag}"
            outd.mkdir()
            res = remap.run_cli_inprocess(["-a", a, "-p", p, "-o", outd / "x.1.tpf", "-c", pre, "--log-level", "DEBUG"])
            if tag == "second":
                got = (res.exit_code, files_of(outd, drop=(d,)))
        if got[0] != base[0]:
            raise Violation(f"exit status {got[0]} after another run in the same process, {base[0]} when run alone")
        if base[0] == 0:
            diff_files(base[1], got[1], "second run in one process vs. the same run alone (DEBUG log included)")
        else:
            # failed runs: the log (with the naming-error table) is still an output
            a_, b_ = base[1].get("x.1.log"), got[1].get("x.1.log")
            if a_ != b_:
                raise Violation("log of a failing run differs after another run in the same process")
    finally:
        remap.rmtree(d)


@st.composite
def inprocess_tpf_cases(draw):
    first = draw(gen.tagged_case(two_haplotypes=True, primary_mode=False, max_scaffolds=5, max_contigs=4))
    second = draw(gen.tagged_case(two_haplotypes=True, primary_mode=draw(st.booleans()), max_scaffolds=5, max_contigs=4))
    # the same haplotype names in both maps, so that what one run has seen can matter for the next
    if first.get("haps") and second.get("haps") and first["haps"] != second["haps"]:
        second = draw(gen.tagged_case(two_haplotypes=True, primary_mode=bool(second.get("primary_mode")), max_scaffolds=5, max_contigs=4))
    return {"first": first, "second": second}


def body_formats(case, rec):
    rec.note(case, is_rich(case), ())
    d = remap.scratch_dir("vf-c17-")
    try:
        src, mp = write_inputs(case, d / "in")
        prefix = case.get("prefix", "SUPER_")
        results = {}
        code, _ = run_in(d, src, mp, "fasta", prefix, "agp", fasta_buffer=case.get("fasta_buffer"))
        if code != 0:
            rec.count("baseline_failed")
            return
        results["fasta"] = d / "out_fasta"
        # the same assembly as AGP: written from the reference run-length encoding of the FASTA (not from the indexer's cache)
        as_agp = d / "in2" / "asm.agp"
        as_agp.parent.mkdir()
        as_agp.write_text(remap.input_text({"input": fasta_input_plain(case["fasta"])}, "agp"))
        as_tpf = d / "in2" / "asm.tpf"
        for k in (1, 2):
            r = remap.run_cli_inprocess([as_agp, "-o", d / "in2" / f"conv{k}.tpf"], script="asm_format")
            if r.exit_code != 0:
                raise Violation(f"asm-format failed on the index cache AGP: {r.exception!r}")
        if (d / "in2" / "conv1.tpf").read_bytes() != (d / "in2" / "conv2.tpf").read_bytes():
            raise Violation("asm-format run twice on the same AGP gave different TPF files")
        shutil.copy(d / "in2" / "conv1.tpf", as_tpf)
        # the AGP as an earlier curation round would have written it: some contigs carry the tag `Cut`
        as_agp_cut = d / "in3" / "asm.agp"
        as_agp_cut.parent.mkdir()
        lines_ = as_agp.read_text().split("\n")
        as_agp_cut.write_text("\n".join(l + "\tCut" if l and not l.startswith("#") and l.split("\t")[4:5] == ["W"] and k % 3 == 0 else l for k, l in enumerate(lines_)))
        for tag, inp in (("agp", as_agp), ("tpf", as_tpf), ("agp_cut", as_agp_cut)):
            code, _ = run_in(d, inp, mp, tag, prefix, "agp")
            if code != 0:
                raise Violation(f"run with the input supplied as {tag.upper()} failed (exit {code}); FASTA input succeeded")
            results[tag] = d / f"out_{tag}"

        def parsed(outd):
            return {f.name: [[n, [r[:5] if r[0] == "F" else r for r in rows]] for n, rows in ref.read_agp(f.read_text())[1]]
                    for f in sorted(outd.iterdir()) if f.name.endswith(".agp")}

        base = parsed(results["fasta"])
        for tag in ("agp", "tpf", "agp_cut"):
            got = parsed(results[tag])
            if sorted(got) != sorted(base):
                raise Violation(f"input as {tag.upper()}: assembly files {sorted(got)} vs {sorted(base)} from FASTA input")
            for n in base:
                if got[n] != base[n]:
                    k = next((i for i, (x, y) in enumerate(zip(base[n], got[n])) if x != y), None)
                    raise Violation(f"input as {tag.upper()}: {n} differs from the FASTA-input result: {base[n][k] if k is not None else len(base[n])} vs {got[n][k] if k is not None else len(got[n])}")
    finally:
        remap.rmtree(d)


def body_asm_format(case, rec):
    """asm-format on the same file under different hash seeds / working directories / as a second file in one invocation"""
    from vf.props import c05

    rec.note(case, len(case["scaffolds"]) > 1, {case["out_format"]})
    asm = remap.conv.mk_assembly("x", case["scaffolds"], header=case["header"])
    d = remap.scratch_dir("vf-c17-")
    try:
        src = d / "in.agp"
        src.write_text(c05.fmt(asm, "agp"))
        outs = []
        for k, (hs, rel) in enumerate([(0, False), (case["hashseed"], True), (case["hashseed"] + 1, False)]):
            od = d / f"o{k}"
            od.mkdir()
            args = ["--qc-overlaps", "-f", case["out_format"]]
            if rel:
                r = remap.run_cli_subprocess(["../in.agp", *args, "-o", "out.txt"], cwd=od, hashseed=hs, script="asm_format")
            else:
                r = remap.run_cli_subprocess([src, *args, "-o", od / "out.txt"], cwd="/", hashseed=hs, script="asm_format")
            outs.append((r.returncode, (od / "out.txt").read_bytes() if (od / "out.txt").exists() else None, r.stderr.replace(str(d), "")))
        for k in (1, 2):
            if outs[k][:2] != outs[0][:2]:
                raise Violation(f"asm-format -f {case['out_format']}: run {k} (hash seed / cwd changed) differs from the baseline: exit {outs[k][0]} vs {outs[0][0]}")
            if outs[k][2] != outs[0][2]:
                raise Violation(f"asm-format --qc-overlaps report on stderr differs between runs: {outs[k][2][:200]!r} vs {outs[0][2][:200]!r}")
    finally:
        remap.rmtree(d)


@st.composite
def asm_format_cases(draw):
    from vf.props import c05

    c = draw(c05.assembly_cases())
    c["out_format"] = draw(st.sampled_from(["AGP", "TPF", "STR", "REPR"]))
    c["hashseed"] = draw(st.integers(1, 10**6))
    return c


def specimen_cases(tier, shard, nshards):
    data = repo_dir() / "tests" / "data"
    dirs = sorted(p.name for p in data.iterdir() if p.is_dir())
    seeds = [1, 7] if tier == "quick" else [1, 2, 7, 12345, "random"]
    pick = dirs if tier == "thorough" else [x for x in dirs if x in ("bChlMac1_3", "idDilFebr1", "iyExeIsch1", "csSphGirg1")]
    k = 0
    for name in pick:
        k += 1
        if k % nshards == shard:
            yield {"specimen": name, "seeds": seeds}


def body_specimen(case, rec):
    import re

    rec.note(case, True, ())
    sd = repo_dir() / "tests" / "data" / case["specimen"]
    specimen = case["specimen"]
    version = ""
    if m := re.search(r"_(\d+)$", specimen):
        version = "." + m.group(1)
        specimen = specimen[: -len(version)]
    inp, mp = sd / f"{specimen}-input{version}.tpf", sd / f"{specimen}-pretext{version}.agp"
    d = remap.scratch_dir("vf-c17-")
    try:
        base = None
        for hs in [0, *case["seeds"]]:
            outd = d / f"out_{hs}"
            outd.mkdir()
            r = remap.run_cli_subprocess(["-a", inp, "-p", mp, "-o", outd / f"{specimen}-pretext-to-tpf{version}.tpf"], hashseed=hs, cwd=outd)
            if r.returncode != 0:
                raise Violation(f"specimen {case['specimen']} failed with PYTHONHASHSEED={hs}: {r.stderr[-200:]}")
            got = files_of(outd, drop=(d,))
            if base is None:
                base = got
                for n, data in got.items():
                    gold = sd / n
                    if gold.exists() and gold.read_bytes() != (outd / n).read_bytes():
                        raise Violation(f"specimen {case['specimen']}: {n} differs from the golden file")
            else:
                diff_files(base, got, f"specimen {case['specimen']} PYTHONHASHSEED={hs}")
            rec.count("specimen_runs")
    finally:
        remap.rmtree(d)


@st.composite
def tagged_fasta_case(draw, two=None):
    base = draw(fasta_cli_cases())
    f = base["fasta"]
    two = draw(st.booleans()) if two is None else two
    if two:
        haps = ["Hap1", "Hap2"]
        for i, r in enumerate(f["records"]):
            r[0] = f"{haps[i % 2]}_scaffold_{i + 1}"
    c = draw(gen.tagged_case(two_haplotypes=False, fasta=f, small_texel=True, piece_tag_weight=5))
    c["fasta"] = f
    if two:
        # haplotype tags on painted scaffolds, some spelled in two cases on one scaffold
        c["haps"] = ["Hap1", "Hap2"]
        k = 0
        for _p, rows in c["map"]:
            frs = [r for r in rows if r[0] == "F"]
            if "Painted" in frs[0][5]:
                frs[0][5].append(["Hap1", "Hap2"][k % 2] if k else "Hap1")
                k += 1
    return c


@st.composite
def process_cases(draw):
    if draw(st.booleans()):
        c = draw(tagged_fasta_case())
    else:
        c = draw(gen.tagged_case(max_scaffolds=4, max_contigs=4, piece_tag_weight=5))
    # extra tags so that set iteration order matters
    for _p, rows in c["map"]:
        frs = [r for r in rows if r[0] == "F"]
        if draw(st.integers(0, 2)) == 0:
            frs[-1][5].extend(t for t in draw(st.lists(st.sampled_from(["Cut", "Singleton", "Unloc" if "Painted" in frs[-1][5] and len(frs) > 1 else "Cut"]), max_size=2)) if t not in frs[-1][5])
    if c.get("haps") and draw(st.integers(0, 2)) == 0:
        for _p, rows in c["map"]:
            frs = [r for r in rows if r[0] == "F"]
            for h in c["haps"]:
                if h in frs[0][5] and len(frs) > 0:
                    frs[-1][5].append(h.upper() if h.upper() != h else h.lower())
                    c["two_spellings"] = True
                    break
            if c.get("two_spellings"):
                break
    seeds = [1, 2, draw(st.integers(3, 10**6)), draw(st.integers(3, 10**6))]
    modes = ["outdir", "abs", "sibling", "abs"]
    c["variants"] = [[seeds[i], draw(st.sampled_from(modes)) if i else "outdir"] for i in range(draw(st.integers(2, 4)))]
    return c


def _with_stale(c, k):
    if k == 0:
        c["stale_between"] = True
    elif k == 1:
        c["debug_log"] = True  # the log then holds the scaffolds' string forms (names, rows, tags)
    return c


@st.composite
def inprocess_cases(draw):
    c = draw(tagged_fasta_case())
    c["other"] = draw(tagged_fasta_case())
    if draw(st.integers(0, 2)) == 0:
        # a last record the .agp cache cannot represent (its name starts with '#'); it is absent from the map
        c["fasta"]["records"].append(["#late", "", "ACGTTGCA", 60, "\n"])
    c["buffers"] = draw(st.lists(st.sampled_from([1, 7, 50, 200]), min_size=1, max_size=2, unique=True))
    c["stale_equal"] = draw(st.booleans())
    c["stale_which"] = draw(st.sampled_from(["both", "fai", "agp"]))
    return c


SUBS = [
    Sub("process", kind="hyp", strategy=lambda: st.builds(_with_stale, process_cases(), st.integers(0, 2)), body=body_process, shrink=False,
        budget={"quick": 96, "thorough": 1500}, desc="PYTHONHASHSEED x cwd / relative-absolute arguments (subprocess)"),
    Sub("inprocess", kind="hyp", strategy=inprocess_cases, body=body_inprocess, shrink=False,
        budget={"quick": 160, "thorough": 3000}, desc="cache cold / warm / stale, stream buffer, interleaved invocations in one process"),
    Sub("inprocess_tpf", kind="hyp", strategy=inprocess_tpf_cases, body=body_inprocess_tpf, shrink=False,
        budget={"quick": 128, "thorough": 2000}, desc="two tagged two-haplotype maps (second often in Primary mode) run in one process with --log-level DEBUG vs the second run alone in a fresh process"),
    Sub("formats", kind="hyp", strategy=lambda: st.builds(lambda c, b: dict(c, fasta_buffer=b), tagged_fasta_case(), st.sampled_from([None, 1, 5, 10, 60])), body=body_formats, shrink=False,
        budget={"quick": 160, "thorough": 3000}, desc="input as FASTA vs AGP vs TPF"),
    Sub("asm_format", kind="hyp", strategy=asm_format_cases, body=body_asm_format, shrink=False,
        budget={"quick": 64, "thorough": 1000}, desc="asm-format (AGP/TPF/STR/REPR output, --qc-overlaps report) under different hash seeds and working directories"),
    Sub("specimens", kind="enum", cases=specimen_cases, body=body_specimen,
        budget={"quick": 4, "thorough": 12}, desc="real specimens x hash seeds (and vs golden files)"),
]
