"""C18 - overlap results keep span and content consistent under every edit sequence."""

import itertools

from hypothesis import strategies as st

from tola.assembly.fragment import Fragment
from tola.assembly.gap import Gap
from tola.assembly.indexed_assembly import IndexedAssembly
from tola.assembly.scaffold import Scaffold

from vf import conv, ref
from vf.props.c12 import scaffold_rows
from vf.runner import Sub, Violation, must

ID = "C18"
LEVEL = "exploration"
RULE = (
    "case = (scaffold rows, bait interval+strand, operation sequence). The overlap result comes from the real lookup; then "
    "up to 8 operations from {discard_start, discard_end, trim_large_overhangs(e), trim_fragment(first|last, keep_start, "
    "keep_end)} are applied, e chosen from {0, 1, current row lengths +-1, large}; an operation is only applied when "
    "applicable (rows non-empty; the trimmed row is the current terminal fragment). After the lookup and after every step an "
    "independent checker recomputes everything from the source scaffold's layout: rows are a contiguous run of source rows "
    "(identity) with only terminal fragments shortened on the correct strand-aware side, no terminal gap, start/end equal the "
    "scaffold coordinates covered, end-start+1 = total row length, and every derived figure (length, overhangs, bait "
    "overlaps, overhang_if_*_removed) equals plain interval arithmetic. Sub-check small_scope enumerates ALL scaffolds of <= 3 "
    "rows of {fragment +,fragment -,gap} x length {1,2,3} x ALL baits x ALL operation sequences of length <= 3 over 9 "
    "operations (complete for that sub-domain). Non-trivial = >= 2 applied operations of different kinds, one of them a trim "
    "of a minus-strand terminal row or a discard that strips a gap; distinct by SHA-1."
)
ASSUMPTIONS = [
    "contig names are unique within the source scaffold except for one deliberately duplicated piece in 1 of 6 cases (the checker then accepts any consistent placement)",
    "an operation that is not applicable (no rows left) ends the sequence; it is not a violation",
]


class Checker:
    def __init__(self, rows_plain, renamed_with=None, rejected_add=None):
        self.plain = rows_plain
        self.src = conv.mk_rows(rows_plain)
        self.spans = ref.layout(rows_plain)
        # the scaffold is built from a work list that its caller re-uses afterwards
        work = list(self.src)
        mine = Scaffold("s", work)
        scaffolds = [mine]
        if renamed_with:
            other = Scaffold("t", conv.mk_rows(renamed_with))
            scaffolds.append(other)
        self.asm = IndexedAssembly("a", scaffolds=scaffolds)
        self.replaced = False
        work.clear()
        work.append(Gap(12345, "scaffold"))
        if renamed_with:
            # the scaffold objects are renamed after indexing (the remapper renames scaffolds by size)
            mine.name, other.name = "t", "s"
        if rejected_add:
            # a second scaffold of the same name is offered and refused before the lookup
            try:
                self.asm.add_scaffold(Scaffold(mine.name, conv.mk_rows(rejected_add)))
            except ValueError:
                pass
            else:
                self.replaced = True  # not C18's subject; the case is not judged

    def locate(self, row):
        """candidate source indices for a (possibly shortened) row: identity first, else same contig name"""
        ident = [k for k, s in enumerate(self.src) if row is s]
        if ident:
            return ident
        if isinstance(row, Fragment):
            return [k for k, s in enumerate(self.src) if isinstance(s, Fragment) and s.name == row.name]
        return []

    def check(self, r, bait, where):
        rows = r.rows
        total = sum(x.length for x in rows)
        if r.end - r.start + 1 != total:
            raise Violation(f"{where}: span {r.start}..{r.end} covers {r.end - r.start + 1} bases but rows total {total}")
        if must(lambda: r.length, what="length") != total:
            raise Violation(f"{where}: length {r.length} != total row length {total}")
        if not rows:
            return
        if isinstance(rows[0], Gap) or isinstance(rows[-1], Gap):
            raise Violation(f"{where}: terminal gap left behind: {rows}")
        cands = self.locate(rows[0])
        if not cands:
            raise Violation(f"{where}: first row {rows[0]} does not come from the source scaffold")
        first_error = None
        for i in cands:
            try:
                return self.check_at(i, r, bait, where)
            except Violation as v:
                first_error = first_error or v
        raise first_error

    def check_at(self, i, r, bait, where):
        rows = r.rows
        j = i + len(rows) - 1
        if j >= len(self.src):
            raise Violation(f"{where}: rows run past the source scaffold")
        left_trim = right_trim = 0
        for m, row in enumerate(rows):
            s = self.src[i + m]
            if row is s:
                continue
            terminal_first, terminal_last = m == 0, m == len(rows) - 1
            if not (terminal_first or terminal_last) or not isinstance(s, Fragment) or not isinstance(row, Fragment):
                raise Violation(f"{where}: row {m} ({row}) is not the source row {s} (rows are not a contiguous run of the source)")
            if (row.name, row.strand) != (s.name, s.strand) or row.start < s.start or row.end > s.end:
                raise Violation(f"{where}: terminal row {row} is not a shortened piece of source row {s}")
            lo_cut, hi_cut = row.start - s.start, s.end - row.end
            lt, rt = (lo_cut, hi_cut) if s.strand == 1 else (hi_cut, lo_cut)
            if lt and not terminal_first:
                raise Violation(f"{where}: last row {row} was shortened on its inner side (source {s})")
            if rt and not terminal_last:
                raise Violation(f"{where}: first row {row} was shortened on its inner side (source {s})")
            if terminal_first:
                left_trim = lt
            if terminal_last:
                right_trim = rt
        want_start = self.spans[i][0] + left_trim
        want_end = self.spans[j][1] - right_trim
        if (r.start, r.end) != (want_start, want_end):
            raise Violation(f"{where}: span {r.start}..{r.end}, rows cover scaffold {want_start}..{want_end}")
        # derived figures: plain interval arithmetic
        bs, be = bait
        def ov(a, b):
            return max(0, min(b, be) - max(a, bs) + 1)
        figures = {
            "start_overhang": bs - want_start,
            "end_overhang": want_end - be,
            "start_row_bait_overlap": ov(want_start, want_start + rows[0].length - 1),
            "end_row_bait_overlap": ov(want_end - rows[-1].length + 1, want_end),
        }
        nxt = next((m for m in range(1, len(rows)) if isinstance(rows[m], Fragment)), None)
        figures["overhang_if_start_removed"] = bs - (self.spans[i + nxt][0] if nxt is not None and (i + nxt) != j else
                                                     (want_end - rows[-1].length + 1 if nxt is not None else want_end + 1))
        prv = next((m for m in range(len(rows) - 2, -1, -1) if isinstance(rows[m], Fragment)), None)
        figures["overhang_if_end_removed"] = (self.spans[i + prv][1] if prv is not None and prv != 0 else
                                              (want_start + rows[0].length - 1 if prv is not None else want_start - 1)) - be
        for name, want in figures.items():
            attr = getattr(type(r), name)
            got = must((lambda: getattr(r, name)) if isinstance(attr, property) else getattr(r, name), what=name)
            if got != want:
                raise Violation(f"{where}: {name} = {got}, interval arithmetic gives {want} (span {want_start}..{want_end}, bait {bs}..{be})")


def e_options(r):
    opts = {0, 1, 10**6}
    for row in r.rows[:2] + r.rows[-2:]:
        opts.update((max(0, row.length - 1), row.length, row.length + 1))
    # thresholds around the bait length and the two overhangs (a short bait deep inside a long row)
    bl = r.bait.end - r.bait.start + 1
    for v in (bl, r.bait.start - r.start, r.end - r.bait.end):
        opts.update((max(0, v - 1), max(0, v), v + 1))
    return sorted(opts)


def apply_op(r, op):
    """returns (label, interesting) or None if not applicable"""
    if not r.rows:
        return None
    kind = op[0]
    if kind == "ds":
        strips = len(r.rows) > 1 and isinstance(r.rows[1], Gap)
        must(r.discard_start, what="discard_start")
        return "discard", strips
    if kind == "de":
        strips = len(r.rows) > 1 and isinstance(r.rows[-2], Gap)
        must(r.discard_end, what="discard_end")
        return "discard", strips
    if kind == "tlo":
        opts = e_options(r)
        e = opts[op[1] % len(opts)]
        must(r.trim_large_overhangs, e, what=f"trim_large_overhangs({e})")
        return "trim_large", False
    if kind == "ts":
        # the result is turned into a Scaffold which is then extended (as the remapper does when it joins pieces);
        # the OverlapResult itself must be unaffected
        sc = must(r.to_scaffold, what="to_scaffold")
        sc.append_scaffold(Scaffold("more", [Fragment("zz", 1, 77, 1)]), Gap(200, "scaffold"))
        sc.add_row(Gap(5, "scaffold"))
        return "to_scaffold", True
    if kind == "tf":
        row = r.rows[0] if op[1] == "first" else r.rows[-1]
        minus = row.strand != 1
        must(r.trim_fragment, row, bool(op[2]), bool(op[3]), what=f"trim_fragment({op[1]})")
        return "trim_fragment", minus
    raise ValueError(kind)


def run_case(rows_plain, bait, ops, rec, case, chk=None):
    chk = chk or Checker(rows_plain, (case or {}).get("renamed_with"), (case or {}).get("rejected_add"))
    if chk.replaced:
        if rec:
            rec.note(case, False, {"second_scaffold_accepted_not_judged"})
        return
    a, b, strand = bait
    r = must(chk.asm.find_overlaps, Fragment("s", a, b, strand, ("Painted", "X")), what="find_overlaps")
    if r is None:
        if rec is not None:
            rec.note(case, False, {"no_overlap"})
        return
    chk.check(r, (a, b), "after lookup")
    kinds = set()
    interesting = False
    applied = 0
    for k, op in enumerate(ops):
        res = apply_op(r, op)
        if res is None:
            break
        applied += 1
        kinds.add(res[0])
        interesting |= res[1]
        chk.check(r, (a, b), f"after step {k + 1} {op}")
    if rec is not None:
        rec.count("steps", applied)
        rec.note(case, len(kinds) >= 2 and interesting, kinds | ({"rows_emptied"} if not r.rows else set()))


def body(case, rec):
    run_case(case["rows"], case["bait"], case["ops"], rec, case)


op_strategy = st.one_of(
    st.sampled_from([["ds"], ["de"], ["ts"]]),
    st.tuples(st.just("tlo"), st.integers(0, 30)).map(list),
    st.tuples(st.just("tf"), st.sampled_from(["first", "last"]), st.booleans(), st.booleans()).map(list),
)


@st.composite
def cases(draw):
    rows = draw(scaffold_rows(max_rows=8, strands=(1, -1, 1, -1, 0)))
    if not any(r[0] == "F" for r in rows):
        rows.insert(draw(st.integers(0, len(rows))), ["F", "cx", 3, 3 + draw(st.integers(0, 30)), draw(st.sampled_from([1, -1]))])
    if draw(st.integers(0, 5)) == 0:
        # the same contig piece occurs twice in the scaffold (equal but distinct rows), here first and last
        first_frag = next(r for r in rows if r[0] == "F")
        rows.append(list(first_frag))
    total = ref.rows_len(rows)
    spans = ref.layout(rows)
    anchors = sorted({1, total} | {s for s, _ in spans} | {e for _, e in spans})
    pt = st.one_of(st.builds(lambda x, d: max(1, x + d), st.sampled_from(anchors), st.integers(-2, 2)), st.integers(1, total + 3))
    a, b = sorted((draw(pt), draw(pt)))
    # make sure the bait touches a contig row (9 of 10 cases)
    frag_spans = [sp for sp, r in zip(spans, rows) if r[0] == "F"]
    if draw(st.integers(0, 9)) and not any(s <= b and e >= a for s, e in frag_spans):
        s, e = draw(st.sampled_from(frag_spans))
        a, b = min(a, e), max(b, s)
    ops = draw(st.lists(op_strategy, min_size=1, max_size=8))
    case = {"rows": rows, "bait": [a, b, draw(st.sampled_from([1, -1]))], "ops": ops}
    if draw(st.integers(0, 7)) == 0:
        case["renamed_with"] = draw(scaffold_rows(max_rows=5))
    elif draw(st.integers(0, 7)) == 0:
        case["rejected_add"] = draw(scaffold_rows(max_rows=5))
    return case


SMALL_OPS = [["ds"], ["de"], ["tlo", 0], ["tlo", 1], ["tlo", 2], ["tlo", 3],
             ["tf", "first", False, False], ["tf", "last", False, False], ["tf", "first", True, False], ["tf", "last", False, True]]
SMALL_KINDS = [("F", 1, 1), ("F", 2, 1), ("F", 3, 1), ("F", 2, -1), ("F", 3, -1), ("G", 1, 0), ("G", 2, 0)]


def small_cases(tier, shard, nshards):
    max_rows = 2 if tier == "quick" else 3
    max_ops = 3
    n = 0
    for k in range(1, max_rows + 1):
        for shape in itertools.product(SMALL_KINDS, repeat=k):
            n += 1
            if n % nshards != shard:
                continue
            rows = []
            for idx, (kind, ln, strand) in enumerate(shape):
                rows.append(["F", f"c{idx}", 4, 4 + ln - 1, strand] if kind == "F" else ["G", ln, "scaffold"])
            yield {"rows": rows, "max_ops": max_ops}


def body_small(case, rec):
    rows = case["rows"]
    total = ref.rows_len(rows)
    chk = Checker(rows)
    n = 0
    seqs = [list(s) for k in range(1, case["max_ops"] + 1) for s in itertools.product(SMALL_OPS, repeat=k)]
    for a in range(1, total + 2):
        for b in range(a, total + 3):
            for ops in seqs:
                n += 1
                try:
                    run_case(rows, [a, b, 1], ops, None, None, chk)
                except Violation as v:
                    raise Violation(f"bait [{a},{b}] ops {ops}: {v}") from None
    rec.count("sequences", n)
    rec.note(case, True, {"small_scope"})


SUBS = [
    Sub("sequences", kind="hyp", strategy=cases, body=body,
        budget={"quick": 16000, "thorough": 300000}, desc="generated (scaffold, bait, operation sequence), invariant checked after every step"),
    Sub("small_scope", kind="enum", cases=small_cases, body=body_small, exhaustive=True,
        budget={"quick": 1, "thorough": 1}, desc="all scaffolds <=2 (quick) / <=3 (thorough) rows x all baits x all op sequences of length <=3"),
]
