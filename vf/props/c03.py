"""C03 - FASTA output is exactly the output AGP applied to the input FASTA."""

from hypothesis import strategies as st

from tola.fasta.index import FastaIndex

from vf import conv, fa, gen, ref, remap
from vf.runner import Sub, Violation, must

ID = "C03"
LEVEL = "exploration"
RULE = (
    "Sub-check api: case = (FASTA file, assembly over it, buffer size, output line length). FASTA as in C04 (LF/CRLF, "
    "widths 1-80, with/without final newline); the index is computed by the REFERENCE reader and injected, so this check "
    "does not depend on the indexer. Assemblies: 1-5 scaffolds of 0-8 rows; fragments are arbitrary sub-intervals "
    "(record, start<=end<=length, strand +,-,?) starting/ending mid-line, overlapping allowed; gaps of 0..5 buffers; buffer "
    "sizes {1,2,3,7,width+-1,fragment length+-1,64,larger than everything}; line lengths {1,2,59,60,61,80}. Oracle: "
    "ref.apply_agp_to_fasta (slice, hand-typed complement table, N gaps, wrap) - byte equality. Sub-check cli: generated "
    "FASTA + PretextView-model map through `pretext-to-asm -o out.fa`: every record of every written .fa equals the reference "
    "applied to the rows of the sibling .agp, record order = AGP object order, names unique, object length = record length. "
    "Non-trivial (api) = a row crossing a FASTA line boundary and a chunk boundary, or a minus-strand row longer than one "
    "buffer, or a gap longer than one buffer; (cli) = more than one output record with a reversed or cut row; distinct by SHA-1."
)
ASSUMPTIONS = [
    "unknown-strand ('?') rows are written forward, as the AGP specification prescribes",
    "the FASTA files are well formed (C04's domain); record names do not start with '#' in the cli sub-check (see C15/C17 notes)",
]

LINE_LENGTHS = [1, 2, 59, 60, 61, 80]


def classes_of(case, lengths, widths):
    cl = set()
    buf = case["buffer"]
    for _n, rows in case["scaffolds"]:
        for r in rows:
            if r[0] == "G":
                if r[1] > buf:
                    cl.add("gap_longer_than_buffer")
                if r[1] == 0:
                    cl.add("zero_length_gap")
                continue
            ln = r[3] - r[2] + 1
            w = widths[r[1]]
            crosses_line = (r[2] - 1) // w != (r[3] - 1) // w
            if crosses_line and ln > buf:
                cl.add("row_crosses_line_and_chunk")
            if r[4] == -1 and ln > buf:
                cl.add("minus_row_longer_than_buffer")
            if r[4] == 0:
                cl.add("unknown_strand")
    return cl


def body_api(case, rec):
    import io

    from tola.fasta.stream import FastaStream

    data = gen.fasta_bytes(case["fasta"])
    recs = ref.read_fasta(data)
    seqs = {r["name"]: r["seq"] for r in recs}
    widths = {r["name"]: r["width"] or 1 for r in recs}
    cl = classes_of(case, None, widths)
    rec.note(case, bool(cl & {"row_crosses_line_and_chunk", "minus_row_longer_than_buffer", "gap_longer_than_buffer"}), cl)
    asm = conv.mk_assembly("a", case["scaffolds"])
    half = max(1, len(case["scaffolds"]) // 2)
    parts = [case["scaffolds"][:half], case["scaffolds"][half:]]
    gapc = case.get("gap_character", "N").encode()  # the second stream may use another gap character (soft-masked 'n', '-')
    with fa.TempFasta(data) as path:
        fai = FastaIndex(path, case["buffer"])
        fai.index = fa.ref_index(data)
        try:
            got = must(fa.stream_bytes, fai, asm, case["line_length"], what="FastaStream.write_assembly")
        finally:
            fa.close(fai)
        # one stream object used for two outputs (its public `out` attribute re-pointed in between)
        fai2 = FastaIndex(path, case["buffer"])
        fai2.index = fa.ref_index(data)
        try:
            first_out, second_out = io.BytesIO(), io.BytesIO()
            stream = FastaStream(first_out, fai2, line_length=case["line_length"], gap_character=gapc)
            must(stream.write_assembly, conv.mk_assembly("a", parts[0]), what="write_assembly")
            stream.out = second_out
            must(stream.write_assembly, conv.mk_assembly("b", parts[1]), what="write_assembly (second output)")
        finally:
            fa.close(fai2)
    # the AGP that is written beside such a FASTA lists the same rows with the same lengths (terminal gap rows included)
    import io as _io

    from tola.assembly.format import format_agp

    buf = _io.StringIO()
    must(format_agp, asm, buf, what="format_agp")
    objects = ref.read_agp(buf.getvalue())[1]
    want_rows = [[n, [r[:5] if r[0] == "F" else r for r in rows]] for n, rows in case["scaffolds"] if rows]  # (a scaffold without rows has no AGP line)
    got_rows = [[n, [r[:5] if r[0] == "F" else r for r in rows]] for n, rows in objects]
    # (object names starting with '#' read as comment lines: the AGP text format cannot carry them)
    if len({n for n, _r in want_rows}) == len(want_rows) and not any(n.startswith("#") for n, _r in want_rows) and got_rows != want_rows:
        raise Violation(f"the AGP written for the assembly does not list its rows: {got_rows[:2]} vs {want_rows[:2]}")
    want = ref.apply_agp_to_fasta(seqs, case["scaffolds"], case["line_length"])
    if got != want:
        k = next((i for i, (x, y) in enumerate(zip(got, want)) if x != y), min(len(got), len(want)))
        raise Violation(f"streamed FASTA differs from the reference at byte {k}: got {got[max(0, k - 20) : k + 20]!r} want {want[max(0, k - 20) : k + 20]!r} (lengths {len(got)}/{len(want)})")
    for n_, (o, p_) in enumerate(zip((first_out, second_out), parts)):
        if o.getvalue() != ref.apply_agp_to_fasta(seqs, p_, case["line_length"], gap=gapc):
            raise Violation(f"one FastaStream used for two outputs: output {n_ + 1} does not hold exactly its own assembly")


def large_cases(tier, shard, nshards):
    """
    records of 150-400 kbp and rows of 64 KiB and more, streamed with the default buffer (250 000) and buffers around
    2**16: the sizes pretext-to-asm really works with (the generated cases above stay below 1 kbp)
    """
    from vf.props.c04 import pseudo_residues

    k = 0
    for width in (60, 61, 1000):
        for eol in ("\n", "\r\n"):
            for buf in (250_000, 70_000, 65_536, 65_535):
                k += 1
                if k % nshards != shard:
                    continue
                n1, n2 = 150_000 + 7 * width + 3, 400_000 + width
                recs = [["big1", "", pseudo_residues(n1, f"x{width}"), width, eol], ["big2", " d", pseudo_residues(n2, f"y{width}"), width, eol]]
                rows1 = [["F", "big1", 1, n1, 1], ["G", 200, "scaffold"], ["F", "big2", 5, 5 + 65_536 + 2 * width, -1], ["F", "big2", 100_001, 100_000 + 66_000, 1]]
                rows2 = [["F", "big2", 1, n2, -1], ["G", 70_000, "scaffold"], ["F", "big1", width + 1, min(n1, width * 1200), 1]]
                yield {"fasta": {"records": recs, "final_newline": k % 2 == 0}, "scaffolds": [["out1", rows1], ["out2", rows2]],
                       "buffer": buf, "line_length": 60}


def parse_fasta_records(data: bytes):
    return [(r["name"], r["seq"]) for r in ref.read_fasta(data)]


def body_cli(case, rec):
    data = gen.fasta_bytes(case["fasta"])
    recs = ref.read_fasta(data)
    seqs = {r["name"]: r["seq"] for r in recs}
    d = remap.scratch_dir("vf-c03-")
    try:
        src = d / "in" / "asm.fa"
        src.parent.mkdir()
        src.write_bytes(data)
        if case.get("stale_cache"):
            # index files left by an earlier version of the file (same names, other offsets and residues), dated
            # exactly as the FASTA or a second older: they describe another file and must not be used
            import os

            from tola.fasta.index import FastaIndex

            older = {"records": [[r[0], "earlier version", r[2][::-1] + "ACGTNN", 61, r[4]] for r in case["fasta"]["records"]],
                     "final_newline": True}
            src.write_bytes(gen.fasta_bytes(older))
            FastaIndex(src).auto_load()
            src.write_bytes(data)
            mt = src.stat().st_mtime_ns
            back = 0 if case["stale_cache"] == "equal" else 10**9
            for sfx in (".fai", ".agp"):
                os.utime(src.with_name(src.name + sfx), ns=(mt - back, mt - back))
        mp = d / "map.agp"
        mp.write_text(remap.map_agp_text(case))
        out = d / "out" / "x.1.fa"
        out.parent.mkdir()
        if case.get("repeated_record"):
            # the FASTA holds a second record with the name of the one before it: such a file is refused - by the
            # first run and by a second run that may find index files - or else what is written has to be right
            last = case["fasta"]["records"][-1]
            with src.open("ab") as fh:
                fh.write(gen.fasta_bytes({"records": [[last[0], "", "ACGTTGCAAC" * 7, 60, "\n"]], "final_newline": True}))
            codes = []
            for _ in range(2):
                res = remap.run_cli_inprocess(["-a", src, "-p", mp, "-o", out], fasta_buffer=case.get("fasta_buffer"))
                codes.append(res.exit_code)
            if all(codes):
                rec.note(case, True, {"repeated_record_name_refused"})
                return
        res = remap.run_cli_inprocess(["-a", src, "-p", mp, "-o", out], fasta_buffer=case.get("fasta_buffer"))
        if res.exit_code != 0:
            raise Violation(f"pretext-to-asm failed on a model map: exit {res.exit_code} {type(res.exception).__name__}: {res.exception}")
        fa_files = sorted(f for f in out.parent.iterdir() if f.name.endswith(".fa"))
        if not fa_files:
            raise Violation("no FASTA written")
        n_records = 0
        edited = False
        for f in fa_files:
            agp = f.with_suffix(".agp")
            if not agp.exists():
                raise Violation(f"{f.name} has no AGP companion")
            _h, objects = ref.read_agp(agp.read_text())
            got = f.read_bytes()
            want = ref.apply_agp_to_fasta(seqs, objects, 60)
            names = [o[0] for o in objects]
            if len(set(names)) != len(names):
                raise Violation(f"{agp.name}: object names not unique: {names}")
            if got != want:
                grecs = parse_fasta_records(got)
                if [g[0] for g in grecs] != names:
                    raise Violation(f"{f.name}: records {[g[0] for g in grecs]} != AGP objects {names}")
                for (gn, gs), (on, rows) in zip(grecs, objects):
                    if len(gs) != ref.rows_len(rows):
                        raise Violation(f"{f.name}: record {gn} has {len(gs)} residues, AGP object length {ref.rows_len(rows)}")
                raise Violation(f"{f.name} differs from its AGP applied to the input FASTA")
            for line in got.split(b"\n")[:-1]:
                if not line or (not line.startswith(b">") and len(line) > 60):
                    raise Violation(f"{f.name}: empty or over-long line")
            n_records += len(objects)
            edited |= any(r[0] == "F" and (r[4] == -1 or len(r) > 5 and "Cut" in r[5]) for _n, rows in objects for r in rows)
        rec.note(case, n_records > 1 and edited, ({"edited"} if edited else set()) | ({"stale_cache_" + case["stale_cache"]} if case.get("stale_cache") else set()))
        # the same command once more: this run finds the index files the first one wrote beside the FASTA
        out2 = d / "out2" / "x.1.fa"
        out2.parent.mkdir()
        res2 = remap.run_cli_inprocess(["-a", src, "-p", mp, "-o", out2], fasta_buffer=case.get("fasta_buffer"))
        if res2.exit_code != 0:
            raise Violation(f"second run (index files present) failed: exit {res2.exit_code} {type(res2.exception).__name__}: {res2.exception}")
        for f in fa_files:
            for g in (f, f.with_suffix(".agp")):
                g2 = out2.parent / g.name
                if not g2.exists() or g2.read_bytes() != g.read_bytes():
                    raise Violation(f"second run (index loaded from the files the first run wrote): {g.name} differs from the first run's, which was checked against the input FASTA")
    finally:
        remap.rmtree(d)


@st.composite
def api_cases(draw):
    f = draw(gen.fasta_file(max_records=4, min_len=1))
    recs = [(r[0], len(r[2]), r[3]) for r in f["records"]]
    buf_pool = [1, 2, 3, 7, 64, 10**6] + [max(1, recs[0][2] - 1), recs[0][2] + 1]
    scaffolds = []
    frag_lens = []
    n_sc = draw(st.integers(1, 5))
    buf = None
    for si in range(n_sc):
        rows = []
        for _ in range(draw(st.integers(0, 8))):
            if draw(st.integers(0, 3)) == 0:
                rows.append(["G", draw(st.sampled_from([0, 1, 2, 7, 60, 61, 200, 350])), "scaffold"])
            else:
                name, n, w = draw(st.sampled_from(recs))
                a = draw(st.integers(1, n))
                b = draw(st.sampled_from([n, min(n, a + w - 1), min(n, a + w), a])) if draw(st.booleans()) else draw(st.integers(a, n))
                rows.append(["F", name, a, b, draw(st.sampled_from([1, -1, -1, 0]))])
                frag_lens.append(b - a + 1)
        scaffolds.append([f"out{si + 1}", rows])
    if frag_lens:
        buf_pool += [max(1, frag_lens[0] - 1), frag_lens[0], frag_lens[0] + 1]
    buf = draw(st.sampled_from(buf_pool))
    if draw(st.integers(0, 5)) == 0:
        # an output scaffold named like ANOTHER input record of the same length, holding one whole forward record
        src = f["records"][0]
        if len(src[2]) >= 2:
            twin = [f"twin{len(f['records']) + 1}", "", src[2][1:] + src[2][0], 60, "\n"]
            src[3], src[4] = 60, "\n"
            f["records"].append(twin)
            scaffolds.append([twin[0], [["F", src[0], 1, len(src[2]), 1]]])
            scaffolds.append([src[0], [["F", twin[0], 1, len(src[2]), 1]]])
    return {"fasta": f, "scaffolds": scaffolds, "buffer": buf, "line_length": draw(st.sampled_from(LINE_LENGTHS)),
            "gap_character": draw(st.sampled_from(["N", "N", "n", "-"]))}


def fasta_input_plain(f):
    """derived assembly (plain, FASTA-shaped) of a plain FASTA, via the reference run-length encoding"""
    out = []
    for name, _d, seq, _w, _e, *_more in f["records"]:
        rows = [["F", name, a, b, 1] if is_seq else ["G", b - a + 1, "scaffold"] for is_seq, a, b in ref.acgt_runs(seq.encode("latin-1"))]
        out.append([name, rows])
    return out


@st.composite
def cli_cases(draw):
    f = draw(gen.fasta_file(max_records=4, min_len=8, max_lines=8, exotic_headers=True))
    # record names: plain, or with non-ASCII letters (UTF-8 in the file), or as real assemblers write them
    style = draw(st.sampled_from(["ctg{}", "ctg{}", "ctg_\u00e9chantillon_{}", "\u03b1{}", "ptg00001{}l", "scaffold_{}|arrow", "h1tg00000{}l.1"]))
    for i, r in enumerate(f["records"]):
        r[0] = style.format(i + 1)
    # keep terminal non-ACGT runs out (a scaffold must not start or end with a gap for the remapper)
    for r in f["records"]:
        s = r[2]
        if s[0] not in gen.ACGT:
            s = "A" + s[1:]
        if s[-1] not in gen.ACGT:
            s = s[:-1] + "c"
        r[2] = s
    if draw(st.integers(0, 2)) == 0:
        # exact multiples of the line width, file without a final newline
        f["final_newline"] = False
        for r in f["records"]:
            w = r[3]
            if len(r[2]) > w:
                r[2] = r[2][: (len(r[2]) // w) * w]
                if r[2][-1] not in gen.ACGT:
                    r[2] = r[2][:-1] + "g"
    t = draw(gen.texel(small=True))
    inp = fasta_input_plain(f)
    m = draw(gen.model_map(inp, t))
    if draw(st.integers(0, 2)) == 0:
        # a second (and third) output assembly: whole single-piece scaffolds tagged Haplotig / Contaminant
        singles = [rows for _pn, rows in m if sum(1 for r in rows if r[0] == "F") == 1]
        for rows, tag in zip(singles[:2], draw(st.permutations(["Haplotig", "Contaminant"]))):
            fr = next(r for r in rows if r[0] == "F")
            fr[5] = sorted((set(fr[5]) - {"Painted"}) | {tag})
    case = {"fasta": f, "t": gen.texel_str(t), "input": inp, "map": m,
            "fasta_buffer": draw(st.sampled_from([None, 1, 7, 50, 199, 200]))}
    stale = draw(st.sampled_from([None, None, None, "equal", "older"]))
    if stale:
        case["stale_cache"] = stale
    elif f["final_newline"] and draw(st.integers(0, 7)) == 0:
        case["repeated_record"] = True
    return case


SUBS = [
    Sub("api", kind="hyp", strategy=api_cases, body=body_api,
        budget={"quick": 6400, "thorough": 120000}, desc="FastaStream over arbitrary assemblies vs reference 'apply AGP to FASTA'"),
    Sub("large", kind="enum", cases=large_cases, body=body_api,
        budget={"quick": 24, "thorough": 24}, desc="150-400 kbp records, rows of 64 KiB and more, LF/CRLF, widths 60/61/1000, default buffer and buffers around 2**16"),
    Sub("cli", kind="hyp", strategy=cli_cases, body=body_cli, shrink=True,
        budget={"quick": 160, "thorough": 3000}, desc="pretext-to-asm FASTA output vs its AGP companion applied to the input FASTA"),
]
