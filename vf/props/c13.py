"""C13 - streaming is buffer-size independent and memory-bounded."""

import io
import tracemalloc

from hypothesis import strategies as st

from tola.assembly.assembly import Assembly
from tola.assembly.fragment import Fragment
from tola.assembly.gap import Gap
from tola.assembly.scaffold import Scaffold
from tola.fasta.index import FastaIndex, index_fasta_file
from tola.fasta.stream import FastaStream

from vf import conv, fa, gen, ref
from vf.props.c03 import api_cases
from vf.runner import Sub, Violation, must

ID = "C13"
LEVEL = "exploration"
RULE = (
    "Sub-check differential: case = (FASTA file, assembly over it, 4 buffer sizes drawn from {1,2,3,5,7,11,width-1,width,"
    "width+1,fragment length+-1,64}); index_fasta_file(f,b) must equal index_fasta_file(f,10^6) (index quintuples and derived "
    "assembly) and the streamed bytes must be identical for every b and equal the reference; monitors: every chunk yielded by "
    "get_sequence_iter/get_gap_iter holds <= b bytes, every span requested from sequence_bytes is <= b residues, every read on "
    "the FASTA handle is <= b bytes, the largest single write to the output is <= max(b, line length). Sub-check memory: "
    "generated configurations (buffer B in {1000,4096,10000}; one record of max(200*B, 2e6) residues in lines of 60/61/80, "
    "LF/CRLF; the whole record as a forward fragment, a reverse fragment and a gap): tracemalloc peak while indexing and "
    "while streaming each must stay below 8*B + 64 KiB (an implementation holding the sequence, fragment or gap needs >= 2 MB). "
    "Non-trivial (differential) = a buffer smaller than a fragment that does not divide its length; every memory case is "
    "non-trivial by construction; distinct by SHA-1."
)
ASSUMPTIONS = [
    "memory is measured as tracemalloc peak of Python allocations (buffers of the C file object included); the bound 8*B+64KiB "
    "is > 1.8x above the measured baseline and > 14x below any whole-sequence buffering, and depends only on allocation sizes",
]


class ReadProxy:
    """Stands in for the FASTA file handle; records the largest single read."""

    def __init__(self, fh):
        self.fh = fh
        self.max_read = 0

    def seek(self, *a):
        return self.fh.seek(*a)

    def tell(self):
        return self.fh.tell()

    def read(self, n=-1):
        data = self.fh.read(n)
        self.max_read = max(self.max_read, len(data))
        return data

    def close(self):
        self.fh.close()


class Sink:
    def __init__(self, keep=True, digest=False):
        import hashlib

        self.keep = keep
        self.buf = io.BytesIO()
        self.max_write = 0
        self.total = 0
        self.digest = hashlib.sha1() if digest else None

    def write(self, data):
        self.max_write = max(self.max_write, len(data))
        self.total += len(data)
        if self.keep:
            self.buf.write(data)
        if self.digest is not None:
            self.digest.update(data)
        return len(data)


def idx_plain(idx):
    return [(n, *fa.info_tuple(i)) for n, i in idx.items()]


def body_diff(case, rec):
    data = gen.fasta_bytes(case["fasta"])
    recs = ref.read_fasta(data)
    seqs = {r["name"]: r["seq"] for r in recs}
    asm_plain = case["scaffolds"]
    frag_lens = [r[3] - r[2] + 1 for _n, rows in asm_plain for r in rows if r[0] == "F"]
    bufs = case["buffers"]
    nt = any(b < ln and ln % b for b in bufs for ln in frag_lens)
    rec.note(case, nt, {"buffer_1"} if 1 in bufs else ())
    want_stream = ref.apply_agp_to_fasta(seqs, asm_plain, 60)
    with fa.TempFasta(data) as path:
        base_idx, base_asm = must(index_fasta_file, path, 10**6, what="index_fasta_file(10^6)")
        base = (idx_plain(base_idx), conv.plain_assembly(base_asm))
        for b in bufs:
            idx, asm = must(index_fasta_file, path, b, what=f"index_fasta_file(buffer={b})")
            got = (idx_plain(idx), conv.plain_assembly(asm))
            if got != base:
                raise Violation(f"indexing with buffer {b} differs from buffer 10^6: {got[1][:2]} vs {base[1][:2]}")
            fai = FastaIndex(path, b)
            fai.index = fa.ref_index(data)
            proxy = ReadProxy(path.open("rb"))
            fai.__dict__["fasta_fileandle"] = proxy
            spans = []
            orig = fai.sequence_bytes
            fai.sequence_bytes = lambda info, s, e, _o=orig: (spans.append(e - s + 1), _o(info, s, e))[1]
            try:
                asm_obj = conv.mk_assembly("a", asm_plain)
                if b % 2:
                    # the index object has already served a stream with another gap character
                    pre = Sink()
                    must(FastaStream(pre, fai, gap_character=b"-").write_assembly, asm_obj, what=f"streaming with buffer {b}, gap character '-'")
                    if pre.buf.getvalue() != ref.apply_agp_to_fasta(seqs, asm_plain, 60, gap=b"-"):
                        raise Violation(f"streamed bytes with buffer {b} and gap character '-' differ from the reference")
                    spans.clear()
                    proxy.max_read = 0
                sink = Sink()
                must(FastaStream(sink, fai).write_assembly, asm_obj, what=f"streaming with buffer {b}")
                if sink.buf.getvalue() != want_stream:
                    raise Violation(f"streamed bytes with buffer {b} differ from the reference / other buffer sizes")
                if spans and max(spans) > b:
                    raise Violation(f"buffer {b}: sequence_bytes was asked for {max(spans)} residues at once")
                if proxy.max_read > b:
                    raise Violation(f"buffer {b}: a single read of {proxy.max_read} bytes from the FASTA file")
                if sink.max_write > max(b, 60):
                    raise Violation(f"buffer {b}: a single write of {sink.max_write} bytes")
                for s in asm_obj.scaffolds:
                    for row in s.rows:
                        it = fai.get_gap_iter(row) if isinstance(row, Gap) else fai.get_sequence_iter(row)
                        total = 0
                        # a small row's chunks are all collected before any is read (a caller may hold several)
                        chunks = list(it) if row.length <= 4096 else it
                        joined = []
                        for chunk in chunks:
                            chunk_bytes = chunk.getvalue()
                            n = len(chunk_bytes)
                            total += n
                            if row.length <= 4096:
                                joined.append(chunk_bytes)
                            if n > b:
                                raise Violation(f"buffer {b}: iterator yielded a chunk of {n} bytes for row {row}")
                        if total != row.length:
                            raise Violation(f"buffer {b}: chunks of row {row} total {total} bytes, row length {row.length}")
                        if joined and isinstance(row, Fragment):
                            piece = seqs[row.name][row.start - 1 : row.end]
                            if b"".join(joined) != (ref.revcomp(piece) if row.strand == -1 else piece):
                                raise Violation(f"buffer {b}: the chunks of row {row}, collected and then read, do not spell its sequence")
            finally:
                proxy.close()


def traced(fn):
    tracemalloc.start()
    try:
        tracemalloc.reset_peak()
        base = tracemalloc.get_traced_memory()[0]
        fn()
        peak = tracemalloc.get_traced_memory()[1]
    finally:
        tracemalloc.stop()
    return peak - base


def body_memory(case, rec):
    B, width, eol, n = case["buffer"], case["width"], case["eol"], case["length"]
    rec.note(case, True, {f"B={B}"})
    limit = 8 * B + 64 * 1024 if B <= 10000 else 10**12  # buffers above the sequence length: content check only
    pattern = (case["pattern"] * (width // len(case["pattern"]) + 1))[:width].encode()
    line = pattern + eol.encode()
    full, rest = divmod(n, width)
    d = fa.scratch()
    path = d / f"big-{B}-{width}-{len(eol)}.fa"
    with path.open("wb") as fh:
        if case.get("tiny_first"):
            fh.write(b">tiny" + eol.encode() + b"A" + eol.encode() + b"C" + eol.encode())  # one residue per line
        fh.write(b">chr1 big" + eol.encode())
        for _ in range(full // 1000):
            fh.write(line * 1000)
        fh.write(line * (full % 1000))
        if rest:
            fh.write(pattern[:rest] + eol.encode())
    try:
        result = {}
        if case.get("via_auto_load"):
            # the way the CLI indexes: through a FastaIndex object (which also writes the cache files)
            def build():
                fi = FastaIndex(path, B)
                fi.auto_load()
                result.update(r=(fi.index, fi.assembly))
                fa.close(fi)

            peak = traced(build)
        else:
            peak = traced(lambda: result.update(r=index_fasta_file(path, B)))
        idx, asm = result["r"]
        if idx["chr1"].length != n:
            raise Violation(f"indexed length {idx['chr1'].length} != {n}")
        if peak > limit:
            raise Violation(f"indexing {n} residues with buffer {B}: peak {peak} bytes > bound {limit}")
        rec.count(f"peak_index_B{B}", peak)
        for label, rows in (("forward", [Fragment("chr1", 1, n, 1)]), ("reverse", [Fragment("chr1", 1, n, -1)]), ("gap", [Gap(n, "scaffold")])):
            fai = FastaIndex(path, B)
            fai.index = idx
            sink = Sink(keep=False, digest=True)
            a = Assembly("a", scaffolds=[Scaffold("s", rows)])
            try:
                peak = traced(lambda: FastaStream(sink, fai).write_assembly(a))
            finally:
                fa.close(fai)
            if sink.total != len(b">s\n") + n + -(-n // 60):
                raise Violation(f"streaming {label}: wrote {sink.total} bytes for {n} residues")
            if sink.digest is not None:
                import hashlib

                seq = (pattern * (n // len(pattern) + 2))  # the record repeats its first line
                line_seq = (pattern * (n // width + 2))[: width]
                full = (line_seq * (n // width + 1))[:n]
                want = {"forward": full, "reverse": ref.revcomp(full) if n < 300000 else full[::-1].translate(bytes(ref.COMPLEMENT.get(c, c) for c in range(256))), "gap": b"N" * n}[label]
                if sink.digest.hexdigest() != hashlib.sha1(b">s\n" + ref.wrap(want, 60)).hexdigest():
                    raise Violation(f"streaming {label} of {n} residues (line width {width}, eol {eol!r}) with buffer {B}: content differs from the reference")
            if peak > limit:
                raise Violation(f"streaming a {label} row of {n} residues with buffer {B}: peak {peak} bytes > bound {limit}")
            if sink.max_write > max(B, 60):
                raise Violation(f"streaming {label}: single write of {sink.max_write} bytes")
            rec.count(f"peak_{label}_B{B}", peak)
    finally:
        path.unlink(missing_ok=True)


@st.composite
def diff_cases(draw):
    c = draw(api_cases())
    widths = [r[3] for r in c["fasta"]["records"]]
    pool = [1, 2, 3, 5, 7, 11, 64, max(1, widths[0] - 1), widths[0], widths[0] + 1]
    frag_lens = [r[3] - r[2] + 1 for _n, rows in c["scaffolds"] for r in rows if r[0] == "F"]
    if frag_lens:
        pool += [max(1, frag_lens[0] - 1), frag_lens[0] + 1]
    bufs = sorted(set(draw(st.lists(st.sampled_from(pool), min_size=4, max_size=4))))
    return {"fasta": c["fasta"], "scaffolds": c["scaffolds"], "buffers": bufs}


def memory_cases(tier, shard, nshards):
    import itertools

    patterns = ["ACGTa", "acgtTGCAg", "GATTACAgatc"]
    k = 0
    for B, width, eol in itertools.product([1000, 4096, 10000], [60, 61, 80], ["\n", "\r\n"]):
        k += 1
        if k % nshards != shard:
            continue
        yield {"buffer": B, "width": width, "eol": eol, "length": max(200 * B, 2_000_000) + 7 * k,
               "pattern": patterns[k % 3], "tiny_first": k % 2 == 0, "via_auto_load": k % 3 == 0}
    # buffers of 70 kB - 1 MB (block-wise read paths): content only
    for B, width, eol in itertools.product([70000, 250000, 1000000], [60, 80], ["\n", "\r\n"]):
        k += 1
        if k % nshards != shard:
            continue
        yield {"buffer": B, "width": width, "eol": eol, "length": 300000 + 11 * k, "pattern": patterns[k % 3], "tiny_first": False}
        if tier == "thorough":
            yield {"buffer": B, "width": width, "eol": eol, "length": 400 * B + 13 * k, "pattern": patterns[(k + 1) % 3]}


def ragged_bytes(case):
    out = []
    for name, seq, widths, eol in case["records"]:
        out.append(f">{name}".encode() + eol.encode())
        at = 0
        k = 0
        while at < len(seq):
            w = widths[k % len(widths)]
            out.append(seq[at : at + w].encode("latin-1") + eol.encode())
            at += w
            k += 1
    return b"".join(out)


def body_ragged(case, rec):
    """
    Records whose lines have IRREGULAR widths (hand-edited or re-joined FASTA). The faidx line-width pair is not
    defined for them, but names, lengths, offsets and the derived assembly are, and all of it has to be the same for
    every buffer size; the derived assembly is also compared with the run-length reference.
    """
    data = ragged_bytes(case)
    recs = ref.read_fasta(data)
    widths = sorted({w for _n, _s, ws, _e in case["records"] for w in ws})
    bufs = case["buffers"]
    rec.note(case, len(widths) >= 2 and any(widths[0] <= b < widths[-1] for b in bufs), {"ragged"})
    want_asm = []
    for r in recs:
        rows = [["F", r["name"], a, b, 1] if is_seq else ["G", b - a + 1, "scaffold"] for is_seq, a, b in ref.acgt_runs(r["seq"])]
        want_asm.append([r["name"], rows])
    with fa.TempFasta(data) as path:
        base_idx, base_asm = must(index_fasta_file, path, 10**6, what="index_fasta_file(10^6)")
        base = (idx_plain(base_idx), conv.plain_assembly(base_asm))
        if base[1] != want_asm:
            raise Violation(f"derived assembly with buffer 10^6 {base[1][:2]} != run-length reference {want_asm[:2]}")
        for r, (n, length, offset, *_rest) in zip(recs, base[0]):
            if (n, length, offset) != (r["name"], len(r["seq"]), r["offset"]):
                raise Violation(f"index row ({n},{length},{offset}) != reference ({r['name']},{len(r['seq'])},{r['offset']})")
        for b in bufs:
            idx, asm = must(index_fasta_file, path, b, what=f"index_fasta_file(buffer={b})")
            got = (idx_plain(idx), conv.plain_assembly(asm))
            if got != base:
                raise Violation(f"irregular line widths {widths}: indexing with buffer {b} differs from buffer 10^6: {got[1][:2]} vs {base[1][:2]}")


@st.composite
def ragged_cases(draw):
    records = []
    for i in range(draw(st.integers(1, 3))):
        n = draw(st.integers(1, 240))
        seq = draw(gen.residue_string(n))
        widths = draw(st.lists(st.sampled_from([1, 2, 3, 6, 7, 11, 27, 52, 60, 61, 80]), min_size=2, max_size=5))
        records.append([f"r{i + 1}", seq, widths, draw(st.sampled_from(["\n", "\n", "\r\n"]))])
    ws = sorted({w for r in records for w in r[2]})
    bufs = draw(st.lists(st.sampled_from(sorted({1, 2, 5, 64} | set(ws) | {w - 1 for w in ws if w > 1} | {w + 1 for w in ws})), min_size=3, max_size=5, unique=True))
    return {"records": records, "buffers": bufs}


SUBS = [
    Sub("ragged", kind="hyp", strategy=ragged_cases, body=body_ragged,
        budget={"quick": 3200, "thorough": 60000}, desc="records with irregular line widths: names, lengths, offsets and derived assembly identical for every buffer size and equal to the run-length reference"),
    Sub("differential", kind="hyp", strategy=diff_cases, body=body_diff,
        budget={"quick": 3200, "thorough": 80000}, desc="index and stream identical for every buffer size; chunk/read/write monitors"),
    Sub("memory", kind="enum", cases=memory_cases, body=body_memory,
        budget={"quick": 18, "thorough": 36}, desc="tracemalloc peak while indexing / streaming a 2-4 MB sequence, fragment, gap: all 18 (B, line width, eol) configurations"),
]
