"""C11 - curation statistics count the real cuts, breaks and joins."""

import re

import yaml
from hypothesis import strategies as st

from vf import conv, gen, ref, remap
from vf.runner import Sub, Violation, must

ID = "C11"
LEVEL = "exploration"
RULE = (
    "case = (texel size, input assembly, Pretext map). Inputs with forward and reverse contigs (so head-to-head and "
    "tail-to-tail junctions occur in the input), 1-bp contigs; maps: clean PretextView-model maps incl. whole-scaffold "
    "reversals, and perturbed maps that complete. Oracle: independent count - cuts = #output fragments - #input contigs; "
    "breaks = |adj(input) - adj(outputs)|, joins = |adj(outputs) - adj(input)| with an adjacency = unordered pair of the two "
    "facing contig ends (contig, coordinate, low/high side) of consecutive fragments (vf/ref.py adjacency_set, no code "
    "shared with the tool). Sub-check cli compares the log line, info.yaml and the haplotig count with the files written. "
    "Non-trivial = >= 1 break and >= 1 join and (>= 1 cut or a mixed-strand junction in input or output); distinct by SHA-1."
)
ASSUMPTIONS = [
    "runs that end in an error are not judged (the statement speaks about completed runs)",
    "strands are +/- (an unknown-strand row makes the statistics raise, i.e. the run does not complete)",
]


def mixed_junction(scaffolds):
    for _n, rows in scaffolds:
        fr = [r for r in rows if r[0] == "F"]
        for x, y in zip(fr, fr[1:]):
            if x[4] != y[4]:
                return True
    return False


def expected_counts(case, outs):
    n_in = sum(1 for _ in ref.all_frags(case["input"]))
    n_out = sum(1 for _ in ref.all_frags(outs))
    a_in = ref.adjacency_set(case["input"])
    a_out = ref.adjacency_set(outs)
    return n_out - n_in, len(a_in - a_out), len(a_out - a_in)


def classify(case, outs, exp):
    cl = set()
    cuts, breaks, joins = exp
    if cuts:
        cl.add("cuts")
    if breaks:
        cl.add("breaks")
    if joins:
        cl.add("joins")
    if mixed_junction(case["input"]):
        cl.add("mixed_strand_junction_in_input")
    if mixed_junction(outs):
        cl.add("mixed_strand_junction_in_output")
    lengths = {n: ref.rows_len(r) for n, r in case["input"]}
    for _pn, rows in case["map"]:
        for r in rows:
            if r[0] == "F" and r[4] < 0 and r[2] == 1 and r[3] >= lengths.get(r[1], 0) - float(case["t"]):
                cl.add("whole_scaffold_reversed")
    return cl


def nontrivial(cl):
    return {"breaks", "joins"} <= cl and bool(cl & {"cuts", "mixed_strand_junction_in_input", "mixed_strand_junction_in_output"})


def grown_input(case):
    """
    The IndexedAssembly served an earlier remap (statistics made) when it held only its first scaffolds; the others
    were added with add_scaffold() afterwards. Returns the object to use for the judged remap.
    """
    k = case["grown_input"]
    inp = case["input"]
    k = max(1, min(k, len(inp) - 1))
    first_names = {n for n, _r in inp[:k]}
    first = dict(case, input=inp[:k], map=[[pn, rows] for pn, rows in case["map"] if all(r[0] != "F" or r[1] in first_names for r in rows)])
    first.pop("grown_input", None)
    input_asm, _ = remap.build_inputs(first)
    if first["map"]:
        try:
            remap.run_api(first, input_asm)
        except Exception:  # noqa: BLE001
            pass
    for n, rows in inp[k:]:
        input_asm.add_scaffold(conv.mk_scaffold(n, rows))
    return input_asm


def body_api(case, rec):
    try:
        res = remap.run_api(case, grown_input(case) if case.get("grown_input") and len(case["input"]) > 1 else None)
    except Exception as e:  # noqa: BLE001
        rec.note(case, False, {"error", "error_" + type(e).__name__})
        return
    outs = [[s.name, conv.plain_rows(s.rows, with_tags=False)] for _k, s in res.all_scaffolds()]
    exp = expected_counts(case, outs)
    cl = classify(case, outs, exp)
    rec.note(case, nontrivial(cl), cl)
    got = (res.stats.cuts, res.stats.breaks, res.stats.joins)
    if got != exp:
        raise Violation(f"reported cuts/breaks/joins {got}, independent count {exp}")
    # asking for the assemblies again must not change what is reported
    try:
        res.build.assemblies_with_scaffolds_fused()
    except Exception:  # noqa: BLE001
        return
    got2 = (res.stats.cuts, res.stats.breaks, res.stats.joins)
    if got2 != exp:
        raise Violation(f"after a second call of assemblies_with_scaffolds_fused() the statistics read {got2}, independent count {exp}")


def body_cli(case, rec):
    d = remap.scratch_dir("vf-c11-")
    try:
        inp = d / "input.agp"
        inp.write_text(remap.input_text(case, "agp"))
        mp = d / "map.agp"
        mp.write_text(remap.map_agp_text(case))
        out = d / "out" / "x.1.agp"
        out.parent.mkdir()
        if len(case["map"]) % 2:
            # the output directory holds the report of an earlier curation of the same specimen (several assemblies,
            # other figures): the default --clobber run must replace it completely
            (out.parent / "x.1.info.yaml").write_text(
                "assemblies:\n  Hap1:\n    manual_breaks: 91\n    manual_joins: 92\n  Hap2:\n    manual_breaks: 93\n    manual_joins: 94\n"
                "manual_breaks: 97\nmanual_haplotig_removals: 98\nmanual_joins: 99\nlater_step: kept?\n")
        res = remap.run_cli_inprocess(["-a", inp, "-p", mp, "-o", out])
        if res.exit_code != 0:
            rec.note(case, False, {"error"})
            return
        outs = []
        hap_objects = None
        for f in sorted(out.parent.iterdir()):
            if f.name.endswith(".agp"):
                sc = ref.read_agp(f.read_text())[1]
                outs.extend(sc)
                if ".haplotigs." in f.name or ".additional_haplotigs." in f.name:
                    hap_objects = len(sc)
        # Two scaffolds of one name in one output file (known finding KF-C10-1: tagged pieces named after their
        # chromosome tag) are read back as ONE object, which invents an adjacency: such runs cannot be judged from files
        try:
            api = remap.run_api(case)
            merged = [s_.name for k_, a in api.assemblies.items() if k_ != "Primary" and getattr(a, "curated", False) for s_ in a.scaffolds] if "Primary" in api.assemblies else []
            # (within one assembly, or across the assemblies that Primary mode writes into one all_haplotigs file)
            if len(set(merged)) != len(merged) or any(len({s_.name for s_ in a.scaffolds}) != len(list(a.scaffolds)) for a in api.assemblies.values()):
                rec.note(case, False, {"duplicate_names_in_an_output_file_not_judged"})
                return
        except Exception:  # noqa: BLE001
            pass
        exp = expected_counts(case, outs)
        cl = classify(case, outs, exp) | {"cli"}
        if hap_objects:
            cl.add("haplotigs_written")
        rec.note(case, nontrivial(cl), cl)
        log = (out.parent / "x.1.log").read_text()
        m = re.search(r"Curation made (\d+) cuts? in (?:a contig|contigs), (\d+) breaks? at (?:a gap|gaps) and (\d+) joins?", log)
        if not m:
            raise Violation("no 'Curation made ...' line in the log")
        got = tuple(int(x) for x in m.groups())
        if got != exp:
            raise Violation(f"log line reports cuts/breaks/joins {got}, files written contain {exp}")
        info = yaml.safe_load((out.parent / "x.1.info.yaml").read_text())
        if "later_step" in info or any(k in ("Hap1", "Hap2") and v.get("manual_breaks") in (91, 93) for k, v in (info.get("assemblies") or {}).items()):
            raise Violation(f"info.yaml still holds entries of the report that was in the output directory before the run: {info}")
        if "manual_breaks" in info and (info["manual_breaks"], info["manual_joins"]) != exp[1:]:
            raise Violation(f"info.yaml totals {info['manual_breaks']}/{info['manual_joins']} differ from {exp[1:]}")
        asms = info.get("assemblies") or {}
        # per-assembly figures are relative to the input scaffolds of the same name prefix; they equal the totals only
        # when the input has a single prefix group (no first-contig name of the form <letters><digits>_...)
        single_group = not any(re.match(r"[A-Za-z]+\d+_", next(r for r in rows if r[0] == "F")[1]) for _n, rows in case["input"] if any(r[0] == "F" for r in rows))
        if single_group and "manual_breaks" not in info and len(asms) == 1 and len([f for f in out.parent.iterdir() if f.name.endswith('.agp')]) == 1:
            v = next(iter(asms.values()))
            if (v["manual_breaks"], v["manual_joins"]) != exp[1:]:
                raise Violation(f"info.yaml single assembly {v} differs from {exp[1:]}")
        if info.get("manual_haplotig_removals") != (hap_objects or 0):
            raise Violation(f"manual_haplotig_removals={info.get('manual_haplotig_removals')} but {hap_objects or 0} haplotig scaffolds written")
    finally:
        remap.rmtree(d)


@st.composite
def cases(draw, cli=False):
    t = draw(gen.texel())
    inp = draw(gen.input_assembly(t, max_scaffolds=4 if cli else 6, max_contigs=6 if cli else 10, arbitrary_names=True,
                                  double_gaps=draw(st.integers(0, 3)) == 0))
    if draw(st.integers(0, 3 if cli else 4)) == 0:
        # haplotype-prefixed names, the haplotypes interleaved in the input file (HAP1_1, HAP2_2, HAP1_3, ...);
        # some scaffolds keep a name without such a prefix (their edits belong to no haplotype's figures)
        for i, sc in enumerate(inp):
            if i >= 2 and draw(st.integers(0, 2)) == 0:
                continue
            new = f"{['HAP1', 'HAP2'][i % 2]}_SCAFFOLD_{i + 1}"
            fasta_shaped = all(r[1] == sc[0] for r in sc[1] if r[0] == "F")
            for k, r in enumerate(sc[1]):
                if r[0] == "F":
                    r[1] = new if fasta_shaped else f"{['HAP1', 'HAP2'][i % 2]}_ctg_{i + 1}{k}"
            sc[0] = new
    kind = draw(st.integers(0, 3))
    m = draw(gen.model_map(inp, t, cut=kind != 0))
    if draw(st.integers(0, 5)) == 0:
        # an input scaffold without any contig (a FASTA record of N only), absent from the map
        inp.insert(draw(st.integers(0, len(inp))), [f"all_n_{len(inp)}", [["G", draw(st.sampled_from([1, 50, 1000])), "scaffold"]]])
    case = {"t": gen.texel_str(t), "input": inp, "map": m, "prefix": "SUPER_"}
    if kind == 0:
        # whole-scaffold edits only: reverse some scaffolds as a whole
        for _pn, rows in m:
            for r in rows:
                if r[0] == "F" and draw(st.booleans()):
                    r[4] = -1
    elif kind == 3:
        m2, ops = draw(gen.perturb_map(m, inp, t))
        case["map"] = m2
        case["ops"] = ops
    if not cli and draw(st.integers(0, 5)) == 0:
        case["grown_input"] = draw(st.integers(1, 4))
    if not cli and draw(st.integers(0, 5)) == 0:
        case["late_prefix"] = draw(st.sampled_from(["CHR_", "LG", "SUPER_"]))
    if cli and draw(st.booleans()):
        # tag a few single-piece unpainted scaffolds as haplotigs
        for _pn, rows in case["map"]:
            fr = [r for r in rows if r[0] == "F"]
            if len(fr) == 1 and "Painted" not in fr[0][5] and draw(st.integers(0, 2)) == 0:
                fr[0][5] = sorted(set(fr[0][5]) | {"Haplotig"})
    return case


def haplotig_sliver_cases():
    """tagged maps with fractional texels, gaps of ~2 texels and many Haplotig pieces: some haplotig overlap results are emptied by trimming"""
    return gen.tagged_case(slivers=True, two_haplotypes=False, max_scaffolds=4, max_contigs=6, piece_tag_weight=2, unloc_weight=50, many_painted=True)


SUBS = [
    Sub("api", kind="hyp", strategy=cases, body=body_api,
        budget={"quick": 24000, "thorough": 400000}, desc="AssemblyStats.cuts/breaks/joins vs independent adjacency count"),
    Sub("small_contig_holes", kind="hyp", strategy=gen.small_contig_hole_case, body=body_api,
        budget={"quick": 6000, "thorough": 100000}, desc="maps with a hole inside or next to a contig of up to 2.5 texels: cuts / breaks / joins vs independent count"),
    Sub("cli", kind="hyp", strategy=lambda: cases(cli=True), body=body_cli,
        budget={"quick": 240, "thorough": 3000}, desc="log line, info.yaml totals and haplotig-removal count vs the AGP files written"),
    Sub("cli_haplotypes", kind="hyp", strategy=lambda: gen.tagged_case(two_haplotypes=True, primary_mode=False, max_scaffolds=6, max_contigs=4, unprefixed_in_primary=True), body=body_cli,
        budget={"quick": 320, "thorough": 4000}, desc="two-haplotype maps (several listed assemblies, some input scaffolds without a haplotype prefix): info.yaml totals vs the files written"),
    Sub("cli_primary", kind="hyp", strategy=lambda: gen.tagged_case(two_haplotypes=True, primary_mode=True, max_scaffolds=6, max_contigs=4, unprefixed_in_primary=True), body=body_cli,
        budget={"quick": 240, "thorough": 3000}, desc="Primary mode with a merged all_haplotigs file (other haplotype + scaffolds of no haplotype): figures vs ALL files written"),
    Sub("cli_haplotigs", kind="hyp", strategy=haplotig_sliver_cases, body=body_cli,
        budget={"quick": 320, "thorough": 4000}, desc="same on maps full of Haplotig pieces that cover mostly gap (overlap results emptied after the H_n name was issued)"),
]
