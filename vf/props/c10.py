"""C10 - chromosome, unloc and haplotig names are unique and ranked by size."""

import csv
import io
import re

from hypothesis import strategies as st

from vf import conv, gen, ref, remap
from vf.runner import Sub, Violation, must

ID = "C10"
LEVEL = "exploration"
RULE = (
    "case = consistently tagged PretextView-model map (C09's generator) with many painted scaffolds (up to ~20, so numeric vs "
    "lexical order matters), 0-3 unlocs and haplotigs per scaffold, name tags, four autosome prefixes, one or two haplotypes; "
    "sub-check exact uses t = 1 with cuts on contig boundaries so that every length is known exactly and ties are frequent. "
    "Oracle (validity predicate, ties free): per output assembly names are unique; autosomes are <prefix>1..n without holes, "
    "first-haplotype sequence length (chromosome + unlocs, gaps excluded) non-increasing in n; later-haplotype scaffolds carry "
    "the number of the first-haplotype scaffold heading their group (A, B.. in map order when several); name-tagged scaffolds "
    "are <prefix><tag>; unlocs of a chromosome are numbered 1..m (exact sub-domain: non-increasing length); haplotigs are "
    "H_1..H_n, a violation only if a later one is longer with AND without gaps; written order = rank 1, 2, 3, autosomes "
    "numerically with their unlocs directly after them; chromosome-list CSV: one line per rank-1/2 scaffold, 'no' exactly for "
    "unlocs; report CSV agrees on localised, lengths and Pretext scaffold. Non-trivial = run completed AND (>= 3 painted "
    "scaffolds with an unloc and a haplotig, or a size tie between autosomes, or >= 10 autosomes); distinct by SHA-1."
)
ASSUMPTIONS = [
    "input names lie outside the generated <prefix>.., H_.. and Scaffold_.. namespaces",
    "scaffold roles are read from the returned objects' rank / original_name attributes and cross-checked against the map",
    "runs ending in TaggingError / ChrNamerError are counted, not judged",
]


def frag_len(rows):
    return sum(ref.row_len(r) for r in rows if r[0] == "F")


def pretext_info(case):
    """per Pretext scaffold name: (name tag or None, haplotype tag lower or None, painted)"""
    haps = [h.lower() for h in case.get("haps", [])]
    info = {}
    for pname, rows in case["map"]:
        tags = {t for r in rows if r[0] == "F" for t in r[5]}
        nt = next((t for t in tags if re.fullmatch(r"([A-Z]\d*|[IVX_]+|\d+[A-Z]+)", t)), None)
        hp = next((h for h in haps if any(t.lower() == h for t in tags)), None)
        info[pname] = (nt, hp, "Painted" in tags)
    return info


def check(case, assemblies, stats, classes, exact):
    """assemblies: list of (key, [scaffold dict(name, rank, orig, rows)])"""
    prefix = case["prefix"]
    pinfo = pretext_info(case)
    pre = re.escape(prefix)
    auto_re = re.compile(rf"^{pre}(\d+)([A-Z]?)(?:_unloc_(\d+))?$")
    order_of = {pname: i for i, (pname, _r) in enumerate(case["map"])}
    numbers = {}  # key -> {n: [scaffolds]}
    for key, scs in assemblies:
        names = [s["name"] for s in scs]
        if len(set(names)) != len(names):
            dup = sorted({n for n in names if names.count(n) > 1})
            raise Violation(f"assembly {key}: scaffold names not unique: {dup}")
        if key == "Haplotig":
            ns = sorted(int(n[2:]) for n in names if re.fullmatch(r"H_\d+", n))
            if len(ns) != len(names) or ns != list(range(1, len(ns) + 1)):
                raise Violation(f"haplotig names are not H_1..H_{len(names)}: {names}")
            by_n = {int(s["name"][2:]): s for s in scs}
            for i in range(1, len(ns) + 1):
                for j in range(i + 1, len(ns) + 1):
                    a, b = by_n[i]["rows"], by_n[j]["rows"]
                    # "non-increasing length": the scaffold's length as written (gap rows included); the statement says
                    # "sequence length" only for the chromosome ranking
                    if ref.rows_len(b) > ref.rows_len(a):
                        raise Violation(f"H_{j} ({ref.rows_len(b)} bp, {frag_len(b)} without gaps) is longer than H_{i} ({ref.rows_len(a)}, {frag_len(a)})")
                    if frag_len(b) > frag_len(a):
                        classes.add("haplotig_order_differs_between_length_and_sequence_length")
            if len(ns) > 1:
                classes.add("several_haplotigs")
            continue
        if key in ("Contaminant", "FalseDuplicate"):
            continue
        # ---- curated assembly
        ranks = [s["rank"] for s in scs]
        if ranks != sorted(ranks):
            raise Violation(f"assembly {key}: scaffolds not written in rank order: {[(s['name'], s['rank']) for s in scs]}")
        seq1 = []
        for s in scs:
            if s["rank"] == 1:
                m = auto_re.match(s["name"])
                if not m:
                    raise Violation(f"assembly {key}: autosome scaffold named {s['name']!r}, expected {prefix}<n>[A-Z][_unloc_<m>]")
                n, suffix, unl = int(m.group(1)), m.group(2), int(m.group(3) or 0)
                numbers.setdefault(key, {}).setdefault(n, []).append(s)
                seq1.append((n, suffix, unl))
                if pinfo.get(s["orig"], (None,))[0] is not None:
                    raise Violation(f"{s['name']}: rank 1 but its Pretext scaffold {s['orig']} carries name tag {pinfo[s['orig']][0]}")
            elif s["rank"] == 2:
                tag = pinfo.get(s["orig"], (None,))[0]
                if tag is None or not re.fullmatch(rf"{pre}{re.escape(tag)}(_unloc_\d+)?", s["name"]):
                    raise Violation(f"assembly {key}: named chromosome {s['name']!r} from {s['orig']} (tag {tag}) is not {prefix}{tag}")
        if seq1 != sorted(seq1):
            raise Violation(f"assembly {key}: autosomes / unlocs not in numeric order with unlocs after their chromosome: {[s['name'] for s in scs if s['rank'] == 1]}")
        # rank 2 and 3: numeric-aware order of plain decimal names
        for rank in (2, 3):
            nm = [s["name"] for s in scs if s["rank"] == rank]
            simple = [n for n in nm if not re.search(r"[IV]", n)]
            keyf = lambda n: [int(x) if x.isdigit() else x for x in re.split(r"(\d+)", n)]  # noqa: E731
            if simple != sorted(simple, key=keyf):
                raise Violation(f"assembly {key}: rank {rank} scaffolds not in numeric-aware name order: {simple}")
        # unlocs numbered 1..m per chromosome
        groups = {}
        for s in scs:
            if s["rank"] in (1, 2):
                base, _, j = s["name"].partition("_unloc_")
                groups.setdefault(base, []).append((int(j) if j else 0, s))
        for base, lst in groups.items():
            js = sorted(j for j, _ in lst if j)
            if js != list(range(1, len(js) + 1)):
                raise Violation(f"assembly {key}: unlocs of {base} are numbered {js}")
            if js:
                classes.add("unlocs")
            if not any(j == 0 for j, _ in lst):
                classes.add("unloc_only_chromosome")
            if exact:
                ul = sorted((j, s) for j, s in lst if j)
                for (j1, s1), (j2, s2) in zip(ul, ul[1:]):
                    if ref.rows_len(s2["rows"]) > ref.rows_len(s1["rows"]) and frag_len(s2["rows"]) > frag_len(s1["rows"]):
                        raise Violation(f"assembly {key}: {s2['name']} is longer than {s1['name']}")
        # chromosome list CSV
        csv_text = must(stats.chromosome_name_csv, s_asm(assemblies_obj, key), what="chromosome_name_csv") if assemblies_obj else None
        want_lines = [s for s in scs if s["rank"] in (1, 2)]
        if csv_text is None:
            if want_lines:
                raise Violation(f"assembly {key}: no chromosome list although it has {len(want_lines)} chromosome scaffolds")
        else:
            rows = list(csv.reader(io.StringIO(csv_text)))
            if [r[0] for r in rows] != [s["name"] for s in want_lines]:
                raise Violation(f"assembly {key}: chromosome list rows {[r[0] for r in rows]} != chromosome scaffolds {[s['name'] for s in want_lines]}")
            for r in rows:
                want = "no" if "_unloc_" in r[0] else "yes"
                if len(r) != 3 or r[2] != want:
                    raise Violation(f"assembly {key}: chromosome list line {r}: localised must be {want!r}")
                chrom = r[0].split("_unloc_")[0]
                if r[1] != chrom[len(prefix):] if chrom.startswith(prefix) else r[1] != chrom:
                    raise Violation(f"assembly {key}: chromosome list line {r}: chromosome column should be {chrom[len(prefix):]!r}")
    # ---- every painted Pretext scaffold with a placeable localised piece yields its chromosome in its haplotype's assembly
    import math

    t = float(case["t"])
    M = 3 * (1 + math.floor(t))
    input_rows = {n: r for n, r in case["input"]}
    lengths = {n: ref.rows_len(r) for n, r in case["input"]}
    haps = [h.lower() for h in case.get("haps", [])]
    target_seen = False
    by_key = {("none" if k is None else str(k).lower()): scs for k, scs in assemblies}
    for pname, rows in case["map"]:
        nt, hp, painted = pinfo[pname]
        frs = [r for r in rows if r[0] == "F"]
        sc_tags = {x for r in frs for x in r[5]}
        if "Target" in sc_tags:
            target_seen = True
        if not (painted or nt) or (target_seen and "Target" not in sc_tags):
            continue
        main = [r for r in frs if not set(r[5]) & {"Haplotig", "Contaminant", "FalseDuplicate", "Unloc"}]
        solid = False
        for r in main:
            lo, hi = r[2] + M + 1, min(r[3], lengths[r[1]]) - M - 1
            if lo <= hi and ref.core_segments(input_rows[r[1]], lo, hi, r[4]):
                solid = True
        if not solid:
            continue
        want_key = hp or "none"
        if case.get("primary_mode"):
            # Primary mode: painted scaffolds belong to the curated (first) haplotype, written as the "Primary" assembly
            want_key = "primary" if hp in (None, haps[0] if haps else None) else hp
        got = [s for s in by_key.get(want_key, []) if s["orig"] == pname and s["rank"] in (1, 2) and "_unloc_" not in s["name"]]
        if not painted:
            # a name tag on a scaffold that is not painted: the haplotype may also come from the input name, so the
            # chromosome is looked for in every curated assembly
            classes.add("name_tag_without_painted")
            got = [s for k, scs in assemblies if k not in ("Haplotig", "Contaminant", "FalseDuplicate") for s in scs
                   if s["orig"] == pname and s["rank"] in (1, 2) and "_unloc_" not in s["name"]]
        if len(got) != 1:
            raise Violation(
                f"painted Pretext scaffold {pname} (name tag {nt}, haplotype {hp}) should give exactly one chromosome scaffold in assembly "
                f"'{want_key}', found {[s['name'] for s in got]} there; scaffolds from it elsewhere: "
                f"{[(k, s['name']) for k, scs in assemblies for s in scs if s['orig'] == pname]}")
        if nt and got[0]["name"] != prefix + nt:
            raise Violation(f"name-tagged scaffold {pname} ({nt}) is called {got[0]['name']!r}, expected {prefix + nt!r}")
        if nt:
            classes.add("named_chromosome")
    # ---- numbering across haplotypes
    all_numbers = sorted({n for d in numbers.values() for n in d})
    if all_numbers != list(range(1, len(all_numbers) + 1)):
        raise Violation(f"autosome numbers have holes: {all_numbers}")
    if len(all_numbers) >= 10:
        classes.add("ten_or_more_autosomes")
    if numbers:
        # the first haplotype = the one whose autosome appears first in the map
        first_key = min(numbers, key=lambda k: min(order_of.get(s["orig"], 10**9) for lst in numbers[k].values() for s in lst))
        L = {n: sum(frag_len(s["rows"]) for s in lst) for n, lst in numbers[first_key].items()}
        if sorted(L) != all_numbers:
            raise Violation(f"first haplotype {first_key} lacks autosome numbers {sorted(set(all_numbers) - set(L))}")
        for n in all_numbers[:-1]:
            if L[n] < L[n + 1]:
                raise Violation(f"{prefix}{n} ({L[n]} bp) is shorter than {prefix}{n + 1} ({L[n + 1]} bp) in the first haplotype {first_key}")
            if L[n] == L[n + 1]:
                classes.add("size_tie")
        # homologues share the number of the group head - judged only when the map realised the
        # canonical layout (first-haplotype scaffold heads each group, nothing painted vanished)
        haps = [h.lower() for h in case.get("haps", [])]
        produced = {s["orig"] for d in numbers.values() for lst in d.values() for s in lst}
        expected_r1 = set()
        for pname, rows in case["map"]:
            nt, hp, painted = pinfo[pname]
            frs = [r for r in rows if r[0] == "F"]
            if painted and nt is None and any(not set(r[5]) & {"Haplotig", "Contaminant", "FalseDuplicate"} for r in frs):
                expected_r1.add(pname)
        canonical = bool(haps) and str(first_key).lower() == haps[0] and expected_r1 <= produced
        if not canonical:
            classes.add("layout_not_canonical_group_rule_skipped")
            return
        heads = sorted((min(order_of[s["orig"]] for s in lst), n) for n, lst in numbers[first_key].items())
        for key, d in numbers.items():
            if key == first_key:
                continue
            for n, lst in d.items():
                for s in lst:
                    pos = order_of[s["orig"]]
                    head = max((h for h in heads if h[0] < pos), default=None)
                    if head is None or head[1] != n:
                        raise Violation(f"{s['name']} (assembly {key}, Pretext {s['orig']}) should carry the number of the first-haplotype scaffold heading its group ({head})")
            classes.add("second_haplotype_autosomes")


assemblies_obj = None


def s_asm(objs, key):
    return objs[key]


def body(case, rec, exact=False):
    global assemblies_obj
    classes = {"two_haplotypes" if case.get("haps") else "single_haplotype"}
    try:
        res = remap.run_api(case)
    except Exception as e:  # noqa: BLE001 -- counted, not judged
        rec.note(case, False, classes | {"error", "error_" + type(e).__name__})
        return
    assemblies = []
    for key, asm in res.assemblies.items():
        assemblies.append((key, [{"name": s.name, "rank": s.rank, "orig": s.original_name,
                                  "rows": conv.plain_rows(s.rows, with_tags=False)} for s in asm.scaffolds]))
    assemblies_obj = res.assemblies
    n_painted = sum(1 for _p, (nt, hp, painted) in pretext_info(case).items() if painted)
    try:
        check(case, assemblies, res.stats, classes, exact)
        # report CSV
        rep = must(res.stats.chromosomes_report_csv, res.assemblies, what="chromosomes_report_csv")
        want = [(k, s) for k, asm in res.assemblies.items() for s in asm.scaffolds if s.rank in (1, 2)]
        if rep is None:
            if want:
                raise Violation("no chromosome report although chromosome scaffolds exist")
        else:
            rows = list(csv.reader(io.StringIO(rep)))[1:]
            if len(rows) != len(want):
                raise Violation(f"chromosome report has {len(rows)} rows for {len(want)} chromosome scaffolds")
            for r, (k, s) in zip(rows, want):
                loc = "false" if "_unloc_" in s.name else "true"
                exp = [k or "Primary", s.name, None, loc, s.original_name, str(s.length), str(s.fragments_length)]
                got = list(r)
                exp[2] = got[2]
                if got != exp:
                    raise Violation(f"chromosome report row {got} != {exp}")
        # the same BuildAssembly asked again after its autosome prefix was changed: names follow the new prefix
        other_prefix = next(p for p in ("CHR", "SUPER_", "LG_") if p != case["prefix"])
        res.build.autosome_prefix = other_prefix
        try:
            again = res.build.assemblies_with_scaffolds_fused()
        except Exception:  # noqa: BLE001
            again = None
        if again is not None:
            assemblies2 = [(key, [{"name": s.name, "rank": s.rank, "orig": s.original_name,
                                   "rows": conv.plain_rows(s.rows, with_tags=False)} for s in asm.scaffolds]) for key, asm in again.items()]
            assemblies_obj = again
            check(dict(case, prefix=other_prefix), assemblies2, res.build.assembly_stats, classes, exact)
            classes.add("second_fuse_with_other_prefix")
    finally:
        assemblies_obj = None
        nt = ({"unlocs", "several_haplotigs"} <= classes and n_painted >= 3) or bool(classes & {"size_tie", "ten_or_more_autosomes"})
        rec.note(case, nt, classes | {"completed"})


def body_exact(case, rec):
    body(case, rec, exact=True)


def body_cli(case, rec):
    """names, order and CSV files as written by the CLI (black box: names only)"""
    classes = {"cli"}
    d = remap.scratch_dir("vf-c10-")
    try:
        inp = d / "input.agp"
        inp.write_text(remap.input_text(case, "agp"))
        mp = d / "map.agp"
        mp.write_text(remap.map_agp_text(case))
        out = d / "out" / "x.1.agp"
        out.parent.mkdir()
        res = remap.run_cli_inprocess(["-a", inp, "-p", mp, "-o", out, "-c", case["prefix"]])
        if res.exit_code != 0:
            rec.note(case, False, classes | {"error"})
            return
        prefix = case["prefix"]
        nt = False
        for f in sorted(out.parent.iterdir()):
            if not f.name.endswith(".agp"):
                continue
            names = [n for n, _rows in ref.read_agp(f.read_text())[1]]
            if len(set(names)) != len(names):
                raise Violation(f"{f.name}: object names not unique: {names}")
            if ".curated." in f.name and "haplotigs" not in f.name:
                chrom = [n for n in names if n.startswith(prefix)]
                if names[: len(chrom)] != chrom:
                    raise Violation(f"{f.name}: chromosome scaffolds are not written first: {names}")
                lst = f.with_name(f.name.replace(".curated.agp", ".chromosome.list.csv"))
                if chrom:
                    if not lst.exists():
                        raise Violation(f"{lst.name} missing although {f.name} has chromosome scaffolds")
                    rows = list(csv.reader(io.StringIO(lst.read_text())))
                    if [r[0] for r in rows] != chrom:
                        raise Violation(f"{lst.name}: rows {[r[0] for r in rows]} != chromosome scaffolds {chrom}")
                    for r in rows:
                        if r[2] != ("no" if "_unloc_" in r[0] else "yes"):
                            raise Violation(f"{lst.name}: line {r}")
                    nt |= len(chrom) >= 3
                elif lst.exists():
                    raise Violation(f"{lst.name} written for an assembly without chromosome scaffolds")
        rec.note(case, nt, classes | {"completed"})
    finally:
        remap.rmtree(d)


@st.composite
def second_round_cases(draw):
    """
    Second curation round: the input assembly is the AGP of an earlier round, so its fragments carry tags (Cut, Painted,
    chromosome names); one such input scaffold is missing from the map altogether and comes back as left-over sequence.
    """
    c = draw(gen.tagged_case(many_painted=True, max_scaffolds=7, max_contigs=4, unloc_weight=4, two_haplotypes=False, target_mode=False))
    tagsets = [["Cut"], ["X"], ["Painted", "X"], ["Painted", "W", "Cut"], ["Painted"], ["B1"]]
    for _n, rows in c["input"]:
        if draw(st.booleans()):
            ts = draw(st.sampled_from(tagsets))
            for r in rows:
                if r[0] == "F" and draw(st.integers(0, 3)) > 0:
                    r.append(list(ts))
    names = [n for n, _r in c["input"]]
    if len(names) > 1:
        gone = draw(st.sampled_from(names))
        new_map = []
        for pn, rows in c["map"]:
            frs = [r for r in rows if r[0] == "F" and r[1] != gone]
            if frs:
                out = []
                for k, r in enumerate(frs):
                    if k:
                        out.append(list(gen.PRETEXT_GAP))
                    out.append(r)
                new_map.append([pn, out])
        if new_map:
            c["map"] = new_map
    return c


SUBS = [
    Sub("second_round", kind="hyp", strategy=second_round_cases, body=body,
        budget={"quick": 4000, "thorough": 60000}, desc="input fragments carry tags of an earlier curation round (Cut, Painted, X ...) and one input scaffold is absent from the map"),
    Sub("files", kind="hyp", strategy=lambda: st.one_of(
            gen.tagged_case(max_scaffolds=6, max_contigs=3, two_haplotypes=True, primary_mode=True, many_painted=True, unprefixed_in_primary=True),
            gen.tagged_case(max_scaffolds=6, max_contigs=3, two_haplotypes=False, many_painted=True)),
        body=lambda case, rec: __import__("vf.props.c20", fromlist=["x"]).body_files(case, rec), shrink=False,
        budget={"quick": 320, "thorough": 4000}, desc="written order (autosomes, named chromosomes, unplaced) in the files of the CLI, incl. the merged all_haplotigs file of Primary mode (same body as C20 'files')"),
    Sub("texel", kind="hyp", strategy=lambda: gen.tagged_case(many_painted=True, max_scaffolds=8, max_contigs=5, unloc_weight=3), body=body,
        budget={"quick": 12000, "thorough": 250000}, desc="names, ranks, order and CSVs on texel-grid maps (lengths taken from the output)"),
    Sub("exact", kind="hyp", strategy=lambda: gen.tagged_case(many_painted=True, exact=True, max_scaffolds=8, max_contigs=5, unloc_weight=3), body=body_exact,
        budget={"quick": 8000, "thorough": 150000}, desc="t = 1, cuts on contig boundaries: exact lengths, frequent ties, unloc size order"),
    Sub("exact_unlocs", kind="hyp", strategy=lambda: gen.tagged_case(exact=True, many_painted=True, all_painted=True, two_haplotypes=False, target_mode=False,
                                                                  group_sizes=[3, 4, 5], unloc_weight=2, piece_tag_weight=20, max_scaffolds=6, max_contigs=6), body=body_exact,
        budget={"quick": 6000, "thorough": 100000}, desc="every scaffold painted, 3-5 pieces each, half of the pieces Unloc, exact lengths: unloc numbering and size order incl. the last scaffold of the map"),
    Sub("slivers", kind="hyp", strategy=lambda: gen.tagged_case(many_painted=True, slivers=True, max_scaffolds=5, max_contigs=6, unloc_weight=2, piece_tag_weight=3, two_haplotypes=False), body=body,
        budget={"quick": 8000, "thorough": 150000}, desc="fractional texels, gaps of about two texels, many cuts near contig ends: pieces that cover mostly gap (overlap results emptied by trimming)"),
    Sub("cli", kind="hyp", strategy=lambda: gen.tagged_case(many_painted=True, max_scaffolds=5, max_contigs=4), body=body_cli,
        budget={"quick": 240, "thorough": 3000}, desc="files written by the CLI: unique object names, chromosome scaffolds first, chromosome list CSV"),
]


def kp_unloc_only(sub, case, msg):
    """F9: a painted Pretext scaffold all of whose (untagged) pieces are Unloc."""
    if "localised must be 'no'" not in msg and "chromosome report row" not in msg:
        return False
    for _pn, rows in case["map"]:
        frs = [r for r in rows if r[0] == "F" and not set(r[5]) & {"Haplotig", "Contaminant", "FalseDuplicate"}]
        if frs and all("Unloc" in r[5] for r in frs):
            return True
    return False


def kp_same_name_tag_two_haplotypes(sub, case, msg):
    """
    KF-C10-1: a Contaminant / FalseDuplicate piece inside a name-tagged painted scaffold keeps the tag as its
    name; with the same name tag in two haplotypes both pieces land in one tagged assembly under one name.
    """
    m = re.search(r"assembly (Contaminant|FalseDuplicate): scaffold names not unique: \[(.*)\]", msg)
    if not m:
        return False
    dups = {x.strip().strip("'") for x in m.group(2).split(",")}
    carriers = {}
    for pname, (nt, hp, painted) in pretext_info(case).items():
        if nt:
            carriers.setdefault(nt, set()).add(hp)
    return all(len(carriers.get(d, ())) >= 2 for d in dups)


KNOWN_PREDICATES = {"unloc_only_chromosome_csv": kp_unloc_only, "same_name_tag_two_haplotypes": kp_same_name_tag_two_haplotypes}
