"""C02 - curated layout follows the Pretext edits to within three texel widths."""

import math

from hypothesis import strategies as st

from vf import conv, gen, ref, remap
from vf.runner import Sub, Violation, must

ID = "C02"
LEVEL = "exploration"
RULE = (
    "case = (texel size, input assembly, clean PretextView-model map with only the Painted tag). Per input scaffold the "
    "texel count is floor or ceil of length/texel, cuts lie on the texel grid (half of them snapped to within +-3 texels of "
    "a contig end), every piece >= 2 texels, pieces are permuted / re-oriented / regrouped into Pretext scaffolds (painted or "
    "not); sub-texel scaffolds present or absent; forward and reverse input contigs. Oracle (validity predicate): the run "
    "completes; for each piece the bases more than M=3*(1+floor(t)) from its ends form one contiguous collinear run of "
    "output rows in exactly one output scaffold with strands input x piece and the input's internal gaps; runs of one "
    "Pretext scaffold that share an output scaffold are in Pretext order; every piece boundary deeper than M inside a contig "
    "splits it exactly at the designated coordinate. Non-trivial = at least one non-empty core AND (a reversed piece, a deep "
    "cut, or a contig end within 3 texels of a cut); distinct by SHA-1 of the plain case."
)
ASSUMPTIONS = [
    "contig names unique or FASTA-shaped; names outside the generated namespaces; input scaffolds may start / end with a gap row in a ninth of the cases",
    "a piece's last base is min(piece end, scaffold length) (PretextView's ceil rounding may overshoot the scaffold)",
]


def oracle(case, outs, rec_classes):
    t = float(case["t"])
    E = 1 + math.floor(t)
    M = 3 * E
    input_rows = {n: r for n, r in case["input"]}
    lengths = {n: ref.rows_len(r) for n, r in case["input"]}
    any_core = False
    boundaries = {}
    for _pname, rows in case["map"]:
        placed = []
        for r in rows:
            if r[0] != "F":
                continue
            S, s, e, o = r[1], r[2], r[3], r[4]
            boundaries.setdefault(S, []).append((s, e))
            if o < 0:
                rec_classes.add("reverse_piece")
            lo, hi = s + M + 1, min(e, lengths[S]) - M - 1
            if lo > hi:
                rec_classes.add("empty_core")
                continue
            segs = ref.core_segments(input_rows[S], lo, hi, o)
            if not segs:
                continue
            any_core = True
            found, reasons = ref.find_run(segs, outs)
            if not found:
                raise Violation(
                    f"piece {S}:{s}-{e}({o}): core {lo}..{hi} is not one contiguous collinear run in any output scaffold; "
                    f"expected segments {segs[:4]}{'...' if len(segs) > 4 else ''}; near misses: {reasons[:2]}"
                )
            if len(found) > 1:
                raise Violation(f"piece {S}:{s}-{e}({o}): core found {len(found)} times: {found}")
            placed.append((found[0], (S, s, e)))
        # Pretext order within a shared destination
        last = {}
        for (key, name, si, at), piece in placed:
            if si in last and last[si][0] > at:
                raise Violation(
                    f"pieces {last[si][1]} and {piece} of one Pretext scaffold share output scaffold {name} but are out of Pretext order"
                )
            last[si] = (at, piece)
    # deep cuts
    frags = [r for _k, _n, rows in outs for r in rows if r[0] == "F"]
    for S, ivs in boundaries.items():
        starts = {s for s, _ in ivs}
        rows = input_rows[S]
        spans = ref.layout(rows)
        for _s, c in ivs:
            if c + 1 not in starts:
                continue
            for (A, B), r in zip(spans, rows):
                if r[0] == "F" and A <= c < B:
                    near = min(c - A + 1, B - c)
                    if near <= 3 * t:
                        rec_classes.add("contig_end_within_3_texels_of_cut")
                    if c - A + 1 > M and B - c > M:
                        rec_classes.add("deep_cut")
                        if r[4] >= 0:
                            x = r[2] + (c - A)
                            ok = any(f[1] == r[1] and f[3] == x for f in frags) and any(f[1] == r[1] and f[2] == x + 1 for f in frags)
                        else:
                            rec_classes.add("deep_cut_reverse_contig")
                            y = r[3] - (c - A)
                            ok = any(f[1] == r[1] and f[2] == y for f in frags) and any(f[1] == r[1] and f[3] == y - 1 for f in frags)
                        if not ok:
                            raise Violation(
                                f"cut at {S}:{c}|{c + 1} lies deeper than {M} inside contig {r[1]}:{r[2]}-{r[3]}({r[4]}) but the "
                                f"contig is not split exactly there; its output pieces: {[f for f in frags if f[1] == r[1]]}"
                            )
                elif r[0] == "F" and (c == B or c + 1 == A):
                    rec_classes.add("cut_on_contig_boundary")
                    rec_classes.add("contig_end_within_3_texels_of_cut")
    return any_core


def body(case, rec):
    classes = set()
    res = must(remap.run_api, case, what="remapping a PretextView-model map")
    outs = [(str(k), s.name, conv.plain_rows(s.rows, with_tags=False)) for k, s in res.all_scaffolds()]
    any_core = False
    try:
        any_core = oracle(case, outs, classes)
    finally:
        nontrivial = any_core and bool(classes & {"reverse_piece", "deep_cut", "contig_end_within_3_texels_of_cut"})
        rec.note(case, nontrivial, classes)


@st.composite
def cases(draw, strands="mixed"):
    t = draw(gen.texel())
    # a third of the cases: FASTA-derived inputs whose scaffolds may begin / end with a gap row (records with terminal N runs)
    inp = draw(gen.input_assembly(t, strands=strands, terminal_gaps=draw(st.integers(0, 2)) == 0))
    m = draw(gen.model_map(inp, t))
    return {"t": gen.texel_str(t), "input": inp, "map": m, "prefix": "SUPER_"}


@st.composite
def unit_texel_cases(draw):
    """texel sizes of 1-2 bp: error length 2-3 bp, many 2-texel pieces, contig ends within a few bases of every cut"""
    t = draw(st.sampled_from([1.0, 1.0, 1.5, 2.0]))
    inp = draw(gen.input_assembly(t, max_scaffolds=3, max_contigs=8, scale=12))
    pieces = []
    for name, rows in inp:
        pieces.extend(draw(gen.scaffold_pieces(name, rows, t, cut=True, max_cuts=10)))
    m = draw(gen.edit_script(pieces))
    return {"t": gen.texel_str(t), "input": inp, "map": m, "prefix": "SUPER_"}


def many_pieces_cases(tier, shard, nshards):
    """one contig cut into some 300 pieces (more pieces than CPython's small-int cache), left in place; both strands"""
    import math

    k = 0
    for t in (2.0, 2.5, 7.3):
        for strand in (1, -1):
            for tail in (0, 1, 3):
                k += 1
                if k % nshards != shard:
                    continue
                n_pieces = 300
                L = math.floor(2 * n_pieces * t) + tail
                inp = [["scaffold_1", [["F", "a", 11, 40, 1], ["G", 200, "scaffold"], ["F", "big", 1, L, strand]]]]
                off = 30 + 200
                n_tex = math.floor((off + L) / t)
                ks = list(range(0, n_tex - 1, 2)) + [n_tex]
                rows = []
                for k1, k2 in zip(ks, ks[1:]):
                    s_, e_ = gen.piece_coords(k1, k2, t)
                    if rows:
                        rows.append(list(gen.PRETEXT_GAP))
                    rows.append(["F", "scaffold_1", s_, e_, 1, ["Painted"]])
                yield {"t": gen.texel_str(t), "input": inp, "map": [["Scaffold_1", rows]], "prefix": "SUPER_"}


def giant_cases(tier, shard, nshards):
    """a 5.2 Gbp scaffold (coordinates beyond 2**32) of three contigs, cut into three pieces that are reordered, one reversed"""
    import math

    k = 0
    for t in (1048576.0, 1500000.5, 87654.321):
        for strand in (1, -1):
            k += 1
            if k % nshards != shard:
                continue
            rows = [["F", "giant_a", 1, 2_900_000_000, strand], ["G", 200, "scaffold"], ["F", "giant_b", 11, 1_400_000_010, 1],
                    ["G", 50_000, "contig"], ["F", "giant_c", 1, 900_000_000, -strand]]
            total = ref.rows_len(rows)
            n_tex = math.floor(total / t)
            ks = [0, n_tex // 3, (2 * n_tex) // 3, n_tex]
            pcs = [gen.piece_coords(a, b, t) for a, b in zip(ks, ks[1:])]
            order = [(2, 1), (0, -1), (1, 1)]
            prows = []
            for idx, o in order:
                if prows:
                    prows.append(list(gen.PRETEXT_GAP))
                prows.append(["F", "scaffold_1", pcs[idx][0], pcs[idx][1], o, ["Painted"]])
            yield {"t": gen.texel_str(t), "input": [["scaffold_1", rows], ["small", [["F", "s", 1, int(40 * t), 1]]]],
                   "map": [["Scaffold_1", prows], ["Scaffold_2", [["F", "small", 1, int(40 * t), 1, []]]]], "prefix": "SUPER_"}


def kp_reverse_contig_cut(sub, case, msg):
    """F7: a piece boundary falls strictly inside a reverse-strand input contig."""
    if "raised ValueError" not in msg or "does not" not in msg and "Sum of fragment" not in msg:
        return False
    return True


SUBS = [
    Sub("unit_texel", kind="hyp", strategy=unit_texel_cases, body=body,
        budget={"quick": 12000, "thorough": 300000}, desc="texel sizes 1 / 1.5 / 2 bp, up to 10 cuts per scaffold: pieces exactly as long as the error length"),
    Sub("many_pieces", kind="enum", cases=many_pieces_cases, body=body,
        budget={"quick": 18, "thorough": 18}, desc="a contig cut into ~300 two-texel pieces left in place (forward and reverse, three tail lengths, three texel sizes)"),
    Sub("giant", kind="enum", cases=giant_cases, body=body,
        budget={"quick": 6, "thorough": 6}, desc="a 5.2 Gbp input scaffold (coordinates beyond 2**32) cut into three reordered pieces, three texel sizes, both strands"),
    Sub("model", kind="hyp", strategy=cases, body=body,
        budget={"quick": 20000, "thorough": 600000},
        desc="clean PretextView-model maps over mixed-strand inputs; core-run / order / deep-cut validity predicate"),
]
