"""C12 - overlap lookup equals a brute-force scan of the scaffold."""

import itertools

from hypothesis import strategies as st

from tola.assembly.fragment import Fragment
from tola.assembly.indexed_assembly import IndexedAssembly
from tola.assembly.scaffold import Scaffold

from vf import conv, ref
from vf.runner import Sub, Violation, must

ID = "C12"
LEVEL = "exploration"
RULE = (
    "case = (scaffold rows, list of query intervals). Hypothesis draws 1-12 rows (fragments of both "
    "strands, gaps, gaps first/last/consecutive, all-gap scaffolds); scaffolds of length <= 40 get ALL "
    "intervals 1<=a<=b<=len+3, longer ones 200 drawn intervals biased to row boundaries +-1 and beyond "
    "the end. Sub-check history interleaves lookups with edits (discard/trim) of the returned results on one indexed "
    "assembly and requires later lookups and the scaffold's own rows to be unaffected. Sub-check small_scope enumerates every scaffold of <= k rows with row kinds "
    "{fragment,gap} x length {1,2,3} and every interval (complete for that sub-domain). A case is "
    "non-trivial when at least one query hits a gap at an end of the hit range, starts/ends exactly on "
    "a row boundary, or lies (partly) beyond the scaffold end; distinct = distinct SHA-1 of the plain case."
)
ASSUMPTIONS = [
    "scaffolds have at least one row and every row has length >= 1 (find_overlaps documents an error for empty scaffolds)",
    "oracle: rows whose scaffold span intersects [a,b], leading/trailing gap rows stripped (vf/ref.py brute_overlap)",
]


def check_scaffold(rows_plain, queries, rec, case):
    rows = conv.mk_rows(rows_plain)
    # the scaffold's name as handed to the constructor: usually a string, sometimes an int (numbered chromosomes) -
    # names are text in this code base (constructors coerce with str()), baits always carry the text form
    sname = case.get("scaffold_name", "s") if isinstance(case, dict) else "s"
    k = case.get("built_in_two_parts") if isinstance(case, dict) else None
    if k:
        # the scaffold is assembled the way the remapper builds scaffolds: a first part, its length read,
        # then the rest appended
        k = min(k, len(rows))
        scaffold = Scaffold(sname, rows[:k])
        _ = scaffold.length
        scaffold.append_scaffold(Scaffold("tail", rows[k:]))
        _ = scaffold.fragments_length
    else:
        scaffold = Scaffold(sname, rows)
    rows = scaffold.rows
    how = case.get("scaffolds_as", "list") if isinstance(case, dict) else "list"
    if how == "generator":
        # any iterable is accepted by the constructor, also one that can be consumed only once
        asm = must(IndexedAssembly, "a", scaffolds=(x for x in [scaffold]), what="IndexedAssembly(generator)")
    elif how == "dict_values":
        asm = must(IndexedAssembly, "a", scaffolds={"k": scaffold}.values(), what="IndexedAssembly(dict view)")
    elif how == "new_from_assembly":
        from tola.assembly.assembly import Assembly

        asm = must(IndexedAssembly.new_from_assembly, Assembly("a", scaffolds=[scaffold]), what="IndexedAssembly.new_from_assembly")
    elif how == "add_later":
        asm = must(IndexedAssembly, "a", what="IndexedAssembly()")
        must(asm.add_scaffold, scaffold, what="add_scaffold")
    else:
        asm = must(IndexedAssembly, "a", scaffolds=[scaffold], what="IndexedAssembly()")
    if isinstance(case, dict) and case.get("rejected_duplicate"):
        # a second scaffold of the same name is refused; that must not disturb the one already indexed
        try:
            asm.add_scaffold(Scaffold(str(sname), conv.mk_rows(case["rejected_duplicate"])))
        except ValueError:
            pass
        else:
            raise Violation("adding a second scaffold named 's' was accepted")
    spans = ref.layout(rows_plain)
    total = spans[-1][1]
    bounds = {s for s, _ in spans} | {e for _, e in spans}
    nontrivial = False
    classes = set()
    for a, b, strand in queries:
        exp = ref.brute_overlap(rows_plain, a, b)
        bait = Fragment(str(sname), a, b, strand)
        got = must(asm.find_overlaps, bait, what=f"find_overlaps([{a},{b}])")
        # classification
        raw = [k for k, (s, e) in enumerate(spans) if s <= b and e >= a]
        gap_end = bool(raw) and (ref.is_gap(rows_plain[raw[0]]) or ref.is_gap(rows_plain[raw[-1]]))
        if gap_end:
            classes.add("gap_at_end_of_hits")
        if a in bounds or b in bounds:
            classes.add("on_row_boundary")
        if b > total:
            classes.add("beyond_end")
        if exp is None:
            classes.add("expects_none")
        if gap_end or a in bounds or b in bounds or b > total:
            nontrivial = True
            rec.count("pairs_nontrivial")
        rec.count("pairs")
        if exp is None:
            if got is not None:
                raise Violation(f"query [{a},{b}]: expected no result, got rows {got.rows}")
            continue
        if got is None:
            raise Violation(f"query [{a},{b}]: expected rows {exp[0]}..{exp[1]}, lookup returned nothing")
        i, j, s, e = exp
        if len(got.rows) != j - i + 1 or any(g is not r for g, r in zip(got.rows, rows[i : j + 1])):
            raise Violation(f"query [{a},{b}]: rows differ: expected indices {i}..{j}, got {got.rows}")
        if (got.start, got.end) != (s, e):
            raise Violation(f"query [{a},{b}]: span {got.start}..{got.end}, expected {s}..{e}")
        if got.bait is not bait:
            raise Violation(f"query [{a},{b}]: bait is not the query")
    rec.note(case, nontrivial, classes)


def body(case, rec):
    rows_plain = case["rows"]
    total = ref.rows_len(rows_plain)
    if case["queries"] == "all":
        qs = [(a, b, 1 if (a + b) % 2 else -1) for a in range(1, total + 4) for b in range(a, total + 4)]
    else:
        qs = [tuple(q) for q in case["queries"]]
    check_scaffold(rows_plain, qs, rec, case)


@st.composite
def scaffold_rows(draw, max_rows=12, strands=(1, -1)):
    n = draw(st.integers(1, max_rows))
    small = draw(st.booleans())
    hi = 6 if small else 400
    p_gap = draw(st.sampled_from([0.2, 0.5, 0.8, 1.0]))
    rows = []
    for k in range(n):
        if draw(st.floats(0, 1)) < p_gap and not (p_gap < 1.0 and k == 0 and draw(st.booleans())):
            rows.append(["G", draw(st.integers(1, hi)), "scaffold"])
        else:
            start = draw(st.integers(1, 50))
            ln = draw(st.integers(1, hi))
            rows.append(["F", f"c{k}", start, start + ln - 1, draw(st.sampled_from(list(strands)))])
    return rows


@st.composite
def cases(draw):
    rows = draw(scaffold_rows())
    extra = {}
    if draw(st.integers(0, 5)) == 0:
        # chromosome-scale and giant-genome coordinates (beyond 2**31 / 2**32 / 2**53)
        f = draw(st.sampled_from([10**4, 10**7, 2**29, 10**9, 2**50]))
        rows = [["G", r[1] * f, r[2]] if r[0] == "G" else ["F", r[1], r[2], r[2] + (r[3] - r[2] + 1) * f - 1, r[4]] for r in rows]
        extra["scaled_by"] = f
    if draw(st.integers(0, 5)) == 0:
        extra["scaffold_name"] = draw(st.sampled_from([7, 12, "chr 1", "x", ""]))
        if extra["scaffold_name"] == "":
            del extra["scaffold_name"]
    if draw(st.integers(0, 2)) == 0:
        extra["scaffolds_as"] = draw(st.sampled_from(["generator", "dict_values", "new_from_assembly", "add_later"]))
    total = ref.rows_len(rows)
    if draw(st.integers(0, 3)) == 0:
        extra["built_in_two_parts"] = draw(st.integers(1, max(1, len(rows) - 1)))
    if draw(st.integers(0, 3)) == 0:
        extra["rejected_duplicate"] = draw(scaffold_rows(max_rows=6))
    if total <= 40:
        return {"rows": rows, "queries": "all", **extra}
    spans = ref.layout(rows)
    anchors = sorted({1, total, total + 1, total + 2} | {s for s, _ in spans} | {e for _, e in spans})
    near = st.builds(lambda x, d: max(1, x + d), st.sampled_from(anchors), st.integers(-1, 1))
    point = st.one_of(near, st.integers(1, total + 5))
    qs = []
    for _ in range(200):
        a = draw(point)
        b = draw(point)
        if a > b:
            a, b = b, a
        qs.append([a, b, draw(st.sampled_from([1, -1]))])
    return {"rows": rows, "queries": qs, **extra}


def body_history(case, rec):
    """
    Lookups interleaved with edits of earlier results: the lookup must stay a function of
    (scaffold, query) - editing a result must not change the indexed scaffold or later lookups.
    """
    from vf.props import c18

    rows_plain = case["rows"]
    rows = conv.mk_rows(rows_plain)
    original = list(rows)
    scaffold = Scaffold("s", rows)
    how = case.get("scaffolds_as", "list") if isinstance(case, dict) else "list"
    if how == "generator":
        # any iterable is accepted by the constructor, also one that can be consumed only once
        asm = must(IndexedAssembly, "a", scaffolds=(x for x in [scaffold]), what="IndexedAssembly(generator)")
    elif how == "dict_values":
        asm = must(IndexedAssembly, "a", scaffolds={"s": scaffold}.values(), what="IndexedAssembly(dict view)")
    elif how == "new_from_assembly":
        from tola.assembly.assembly import Assembly

        asm = must(IndexedAssembly.new_from_assembly, Assembly("a", scaffolds=[scaffold]), what="IndexedAssembly.new_from_assembly")
    elif how == "add_later":
        asm = must(IndexedAssembly, "a", what="IndexedAssembly()")
        must(asm.add_scaffold, scaffold, what="add_scaffold")
    else:
        asm = must(IndexedAssembly, "a", scaffolds=[scaffold], what="IndexedAssembly()")
    held = scaffold.rows
    edits = 0
    whole = False
    total = ref.rows_len(rows_plain)
    for a, b, ops in case["steps"]:
        exp = ref.brute_overlap(rows_plain, a, b)
        got = must(asm.find_overlaps, Fragment("s", a, b, 1, ("Painted",)), what=f"find_overlaps([{a},{b}])")
        if (exp is None) != (got is None):
            raise Violation(f"after {edits} edits of earlier results: query [{a},{b}] expected {exp}, got {got and got.rows}")
        if got is None:
            continue
        i, j, s_, e_ = exp
        if len(got.rows) != j - i + 1 or any(g is not r for g, r in zip(got.rows, original[i : j + 1])) or (got.start, got.end) != (s_, e_):
            raise Violation(f"after {edits} edits of earlier results: query [{a},{b}] returned rows {got.rows} span {got.start}..{got.end}, brute force gives rows {i}..{j} span {s_}..{e_}")
        whole |= a <= 1 and b >= total
        for op in ops:
            if c18.apply_op(got, op) is None:
                break
            edits += 1
        if len(held) != len(original) or any(x is not y for x, y in zip(held, original)):
            raise Violation(f"editing a lookup result changed the rows of the indexed scaffold: {held}")
    rec.note(case, edits > 0 and whole, {"whole_scaffold_lookup_then_edit"} if whole and edits else ())
    other = case.get("other_rows")
    if other:
        two_assemblies(rows_plain, other, case["steps"])


def brute_check(asm, name, rows_plain, rows, a, b, what):
    exp = ref.brute_overlap(rows_plain, a, b)
    got = must(asm.find_overlaps, Fragment(name, a, b, 1), what=f"{what}: find_overlaps({name}:[{a},{b}])")
    if (exp is None) != (got is None):
        raise Violation(f"{what}: query {name}:[{a},{b}] expected {exp}, got {got and got.rows}")
    if got is not None:
        i, j, s_, e_ = exp
        if len(got.rows) != j - i + 1 or any(g is not r for g, r in zip(got.rows, rows[i : j + 1])) or (got.start, got.end) != (s_, e_):
            raise Violation(f"{what}: query {name}:[{a},{b}] returned rows {got.rows} span {got.start}..{got.end}, brute force gives rows {i}..{j} span {s_}..{e_}")


def two_assemblies(rows_a, rows_b, steps):
    """
    Several indexed assemblies alive at once (same scaffold names, different layouts), a copy made with
    new_from_assembly(), a scaffold added to each, scaffold objects renamed after indexing: every lookup is
    still a function of the assembly it is made on and the name it was indexed under.
    """
    ra, rb = conv.mk_rows(rows_a), conv.mk_rows(rows_b)
    sa, sb = Scaffold("s", ra), Scaffold("s", rb)
    asm_a = IndexedAssembly("a", scaffolds=[sa, Scaffold("t", conv.mk_rows(rows_b))])
    asm_b = IndexedAssembly("b", scaffolds=[sb])
    for a, b, _ops in steps:
        brute_check(asm_a, "s", rows_a, ra, a, b, "two assemblies alive (first)")
        brute_check(asm_b, "s", rows_b, rb, a, b, "two assemblies alive (second)")
    # a copy of an indexed assembly gets a scaffold of its own; so does the original, with another layout
    copy = must(IndexedAssembly.new_from_assembly, asm_b, what="new_from_assembly(IndexedAssembly)")
    ru, rv = conv.mk_rows(rows_a), conv.mk_rows(rows_b)
    copy.add_scaffold(Scaffold("u", ru))
    asm_b.add_scaffold(Scaffold("u", rv))
    for a, b, _ops in steps:
        brute_check(asm_b, "u", rows_b, rv, a, b, "original after its copy also got a scaffold 'u'")
        brute_check(copy, "u", rows_a, ru, a, b, "copy made with new_from_assembly")
        brute_check(copy, "s", rows_b, rb, a, b, "copy made with new_from_assembly")
    # scaffold objects renamed after indexing (the remapper renames scaffolds by size): lookups go by the indexed name
    t_rows = asm_a.scaffold_by_name("t").rows
    sa.name, asm_a.scaffold_by_name("t").name = "t", "s"
    for a, b, _ops in steps:
        brute_check(asm_a, "s", rows_a, ra, a, b, "after the scaffold objects swapped names")
        brute_check(asm_a, "t", rows_b, t_rows, a, b, "after the scaffold objects swapped names")


@st.composite
def history_cases(draw):
    from vf.props.c18 import op_strategy

    rows = draw(scaffold_rows(max_rows=6))
    if not any(r[0] == "F" for r in rows):
        rows.append(["F", "cx", 1, draw(st.integers(1, 20)), 1])
    total = ref.rows_len(rows)
    steps = []
    for _ in range(draw(st.integers(2, 5))):
        if draw(st.integers(0, 2)) == 0:
            a, b = 1, total + draw(st.integers(0, 2))
        else:
            a = draw(st.integers(1, total))
            b = draw(st.integers(a, total + 2))
        steps.append([a, b, draw(st.lists(op_strategy, max_size=3))])
    other = draw(scaffold_rows(max_rows=6)) if draw(st.booleans()) else None
    return {"rows": rows, "steps": steps, "other_rows": other}


KINDS = [("F", 1), ("F", 2), ("F", 3), ("G", 1), ("G", 2), ("G", 3)]


def small_scope_cases(tier, shard, nshards):
    max_rows = 4 if tier == "quick" else 6
    n = 0
    for k in range(1, max_rows + 1):
        for shape in itertools.product(KINDS, repeat=k):
            n += 1
            if n % nshards != shard:
                continue
            rows = []
            for idx, (kind, ln) in enumerate(shape):
                if kind == "F":
                    rows.append(["F", f"c{idx}", 5, 5 + ln - 1, 1 if idx % 2 == 0 else -1])
                else:
                    rows.append(["G", ln, "scaffold"])
            yield {"rows": rows, "queries": "all"}


SUBS = [
    Sub(
        "random",
        kind="hyp",
        strategy=cases,
        body=body,
        budget={"quick": 3200, "thorough": 150000},
        desc="Hypothesis-drawn scaffolds x all / 200 drawn intervals vs brute-force scan",
    ),
    Sub(
        "history",
        kind="hyp",
        strategy=history_cases,
        body=body_history,
        budget={"quick": 8000, "thorough": 150000},
        desc="lookups interleaved with edits (discard / trim) of earlier results on one IndexedAssembly: later lookups and the scaffold itself are unaffected",
    ),
    Sub(
        "small_scope",
        kind="enum",
        cases=small_scope_cases,
        body=body,
        budget={"quick": 1, "thorough": 1},
        exhaustive=True,
        desc="every scaffold with <=4 (quick) / <=6 (thorough) rows of {fragment,gap}x{1,2,3} x every interval up to len+3",
    ),
]


def kp_trailing_gap(sub, case, msg):
    return "raised IndexError" in msg


KNOWN_PREDICATES = {"trailing_gap_indexerror": kp_trailing_gap}
