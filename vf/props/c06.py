"""C06 - every AGP the tools write is coordinate-valid."""

import io

from hypothesis import strategies as st

from tola.assembly.format import format_agp
from tola.fasta.index import FastaIndex

from vf import conv, fa, gen, ref, remap
from vf.props import c01, c03, c05
from vf.runner import Sub, Violation, must

ID = "C06"
LEVEL = "exploration"
RULE = (
    "AGP text from three producers is passed to an independent validator (vf/ref.py agp_validate: rows of each object tile "
    "it from 1, part numbers 1,2,3.., W rows: object span = component span, U rows: span = stated length, type present, "
    "linkage yes, last object end = scaffold length computed by the harness; FASTA record length when a FASTA is written). "
    "Sub-check format: format_agp on arbitrary generated assemblies (C05's generator plus scaffolds starting/ending with "
    "gaps and zero-length gaps). Sub-check remap: every assembly returned by remapping C01's model and perturbed maps (cut "
    "fragments, reversed rows, fused scaffolds). Sub-check cli: files written by pretext-to-asm (-o x.agp and the .agp "
    "companion of -o x.fa, whose objects are compared with the FASTA records) and by asm-format. Sub-check cache: the .agp "
    "written beside a generated FASTA. Non-trivial = an object with >= 3 parts including a gap and a cut or reversed row "
    "(remap/cli), >= 3 parts with a gap (format/cache); distinct by SHA-1."
)
ASSUMPTIONS = ["object names are unique within a file by construction of the generators (C10 covers uniqueness of generated names)"]


def agp_text(asm):
    out = io.StringIO()
    format_agp(asm, out)
    return out.getvalue()


def rich(scaffolds, need_edit):
    for _n, rows in scaffolds:
        if len(rows) >= 3 and any(r[0] == "G" for r in rows):
            if not need_edit or any(r[0] == "F" and (r[4] == -1 or (len(r) > 5 and "Cut" in r[5])) for r in rows):
                return True
    return False


def body_format(case, rec):
    sc = case["scaffolds"]
    rec.note(case, rich(sc, False), {"zero_length_gap"} if any(r[0] == "G" and r[1] == 0 for _n, rows in sc for r in rows) else ())
    asm = conv.mk_assembly("x", sc, header=case.get("header"))
    text = must(agp_text, asm, what="format_agp")
    msg = ref.agp_validate(text, {n: ref.rows_len(rows) for n, rows in sc})
    if msg:
        raise Violation(msg)


def body_built(case, rec):
    """
    Scaffolds grown step by step through the public methods (rows at construction, add_row, append_scaffold with and
    without a gap, reverse), with the length properties READ between steps: the AGP written at the end must be valid and
    its last object end must equal both the model's length and what Scaffold.length / Assembly.length report then.
    """
    from tola.assembly.assembly import Assembly
    from tola.assembly.scaffold import Scaffold

    asm = Assembly("x")
    model = []
    kinds = set()
    for name, ops in case["scaffolds"]:
        sc = None
        rows = []
        for op in ops:
            kinds.add(op[0])
            if op[0] == "new":
                sc = Scaffold(name, conv.mk_rows(op[1]))
                rows = [list(r) for r in op[1]]
            elif op[0] == "read":
                got = (sc.length, sc.fragments_length, sc.gaps_length)
                want = (ref.rows_len(rows), sum(r[3] - r[2] + 1 for r in rows if r[0] == "F"), sum(r[1] for r in rows if r[0] == "G"))
                if got != want:
                    raise Violation(f"{name}: (length, fragments_length, gaps_length) = {got}, rows say {want}")
            elif op[0] == "add_row":
                sc.add_row(conv.mk_row(op[1]))
                rows.append(list(op[1]))
            elif op[0] == "append":
                other = Scaffold("other", conv.mk_rows(op[1]))
                gap = conv.mk_row(op[2]) if op[2] else None
                sc.append_scaffold(other, gap)
                if gap is not None and rows:
                    rows.append(list(op[2]))
                rows.extend(list(r) for r in op[1])
            elif op[0] == "reverse":
                sc = sc.reverse()
                rows = [([x[0], x[1], x[2], x[3], -x[4], *x[5:]] if x[0] == "F" else x) for x in reversed(rows)]
        asm.add_scaffold(sc)
        model.append([name, rows])
    rec.note(case, {"read", "append"} <= kinds and rich(model, False), kinds)
    text = must(agp_text, asm, what="format_agp")
    msg = ref.agp_validate(text, {n: ref.rows_len(rows) for n, rows in model if rows})
    if msg:
        raise Violation(msg)
    for sc, (name, rows) in zip(asm.scaffolds, model):
        if sc.length != ref.rows_len(rows):
            raise Violation(f"{name}: Scaffold.length reports {sc.length} when the AGP is written, its rows (and the AGP's last object end) total {ref.rows_len(rows)}")
    if asm.length != sum(ref.rows_len(rows) for _n, rows in model):
        raise Violation(f"Assembly.length reports {asm.length}, the scaffolds total {sum(ref.rows_len(rows) for _n, rows in model)}")


def body_remap(case, rec):
    try:
        res = remap.run_api(case)
    except Exception as e:  # noqa: BLE001
        rec.note(case, False, {"error"})
        return
    nt = False
    dup = False
    for key, asm in res.assemblies.items():
        plain = conv.plain_assembly(asm)
        nt |= rich(plain, True)
        names = [n for n, _ in plain]
        if len(set(names)) == len(names):
            text = must(agp_text, asm, what="format_agp")
            msg = ref.agp_validate(text, {n: ref.rows_len(rows) for n, rows in plain})
        else:
            # two scaffolds of one name in one assembly (uniqueness is C10's business): objects
            # cannot be told apart in the text, so validate scaffold by scaffold
            dup = True
            msg = None
            from tola.assembly.assembly import Assembly

            for s in asm.scaffolds:
                msg = msg or ref.agp_validate(must(agp_text, Assembly("x", scaffolds=[s]), what="format_agp"), {s.name: s.length})
        if msg:
            rec.note(case, nt, ())
            raise Violation(f"assembly {key}: {msg}")
    rec.note(case, nt, {case.get("kind", "model")} | ({"duplicate_names"} if dup else set()))


def body_cli(case, rec):
    fasta = case.get("fasta")
    d = remap.scratch_dir("vf-c06-")
    try:
        if fasta:
            data = gen.fasta_bytes(fasta)
            src = d / "in" / "asm.fa"
            src.parent.mkdir()
            src.write_bytes(data)
            out = d / "out" / "x.1.fa"
        else:
            src = d / "input.tpf"
            src.write_text(remap.input_text(case, "tpf"))
            out = d / "out" / "x.1.agp"
        mp = d / "map.agp"
        mp.write_text(remap.map_agp_text(case))
        out.parent.mkdir()
        res = remap.run_cli_inprocess(["-a", src, "-p", mp, "-o", out], fasta_buffer=case.get("fasta_buffer"))
        if res.exit_code != 0:
            rec.note(case, False, {"error"})
            return
        if fasta and len(case["map"]) % 2:
            # judged is a SECOND run into the same directory, which loads the index files the first run wrote
            res = remap.run_cli_inprocess(["-a", src, "-p", mp, "-o", out], fasta_buffer=case.get("fasta_buffer"))
            if res.exit_code != 0:
                raise Violation(f"second run (index files present) failed: {res.exception!r}")
        nt = False
        for f in sorted(out.parent.iterdir()):
            if not f.name.endswith(".agp"):
                continue
            text = f.read_text()
            _h, objects = ref.read_agp(text)
            nt |= rich(objects, True)
            lengths = None
            fa_file = f.with_suffix(".fa")
            if fasta:
                if not fa_file.exists():
                    raise Violation(f"{f.name} has no FASTA beside it")
                lengths = {r["name"]: len(r["seq"]) for r in ref.read_fasta(fa_file.read_bytes())}
            msg = ref.agp_validate(text, lengths)
            if msg:
                raise Violation(f"{f.name}: {msg}")
        if fasta:
            cache = src.with_name(src.name + ".agp")
            msg = ref.agp_validate(cache.read_text(), {r["name"]: len(r["seq"]) for r in ref.read_fasta(data)})
            if msg:
                raise Violation(f"cache {cache.name}: {msg}")
        # asm-format re-writing one of the outputs
        first = next(f for f in sorted(out.parent.iterdir()) if f.name.endswith(".agp"))
        r2 = remap.run_cli_inprocess([first, "-o", d / "re.agp"], script="asm_format")
        if r2.exit_code != 0:
            raise Violation(f"asm-format failed on {first.name}: {r2.exception!r}")
        msg = ref.agp_validate((d / "re.agp").read_text())
        if msg:
            raise Violation(f"asm-format output: {msg}")
        rec.note(case, nt, {"fasta_output" if fasta else "agp_output"})
    finally:
        remap.rmtree(d)


def body_cache(case, rec):
    data = gen.fasta_bytes(case["fasta"])
    recs = ref.read_fasta(data)
    nt = any(len(ref.acgt_runs(r["seq"])) >= 3 for r in recs)
    rec.note(case, nt, ())
    with fa.TempFasta(data) as path:
        if case.get("stale"):
            # cache files of ANOTHER file, not strictly newer than this FASTA: they have to be rebuilt
            import os

            other = gen.fasta_bytes(case["stale"])
            path.write_bytes(other)
            FastaIndex(path, case["buffer"]).auto_load()
            path.write_bytes(data)
            mt = path.stat().st_mtime_ns
            back = 0 if case.get("stale_equal") else 10**9
            which = case.get("stale_which", "both")
            for sfx in (".fai", ".agp"):
                # 'both': neither file is newer than the FASTA; 'agp' / 'fai': only that one is not, the other is a second newer
                when = mt - back if which in ("both", sfx[1:]) else mt + 10**9
                os.utime(path.with_name(path.name + sfx), ns=(when, when))
        fai = FastaIndex(path, case["buffer"])
        if case.get("dup"):
            # two records of one name: the tools refuse such a file; if they ever do not, what they write still has to be valid
            try:
                fai.auto_load()
            except Exception:  # noqa: BLE001
                rec.note(case, nt, {"duplicate_names_refused"})
                return
            agp = path.with_name(path.name + ".agp")
            if agp.exists():
                msg = ref.agp_validate(agp.read_text())
                if msg:
                    raise Violation(f"cache AGP written for a FASTA with two records named alike: {msg}")
            return
        must(fai.auto_load, what="auto_load")
        text = path.with_name(path.name + ".agp").read_text()
        msg = ref.agp_validate(text, {r["name"]: len(r["seq"]) for r in recs if len(r["seq"])})
        if msg:
            raise Violation(f"cache AGP: {msg}")


def body_cache_write_error(case, rec):
    """
    A write of the index files FAILS part-way (disk full, quota): whatever `.agp` is then found beside the FASTA - by
    this process or the next - still has to be a valid AGP of the whole file (the failure itself may be loud).
    """
    from vf import fsim

    data = gen.fasta_bytes(case["fasta"])
    recs = ref.read_fasta(data)
    lengths = {r["name"]: len(r["seq"]) for r in recs if len(r["seq"])}
    with fa.TempFasta(data) as path:
        agp = path.with_name(path.name + ".agp")
        with fsim.Sim(path.parent, keep=[path], chunk=case["chunk"]) as sim:
            try:
                FastaIndex(path).auto_load()
            except Exception:  # noqa: BLE001
                pass
        steps = [j for j, (_s, what, _f) in enumerate(sim.log, 1) if what in ("flush", "close", "open-write")]
        rec.note(case, len(steps) >= 3, {f"chunk_{case['chunk']}"})
        for j in steps:
            for f in path.parent.iterdir():
                if f != path:
                    f.unlink()
            with fsim.Sim(path.parent, keep=[path], chunk=case["chunk"], crash_at=j, fault="oserror"):
                try:
                    FastaIndex(path).auto_load()
                except Exception:  # noqa: BLE001
                    pass
            rec.count("write_errors_injected")
            if agp.exists():
                msg = ref.agp_validate(agp.read_text(), lengths)
                if msg:
                    raise Violation(f"a write error at file operation {j} ({sim.log[j - 1][1]} {sim.log[j - 1][2]}) left an invalid {agp.name} behind: {msg}")


@st.composite
def format_cases(draw):
    c = draw(c05.assembly_cases())
    for _n, rows in c["scaffolds"]:
        if draw(st.integers(0, 3)) == 0:
            rows.insert(0, ["G", draw(st.sampled_from([0, 1, 200])), "scaffold"])
        if draw(st.integers(0, 3)) == 0:
            rows.append(["G", draw(st.sampled_from([0, 5, 200])), "telomere"])
    return c


@st.composite
def built_cases(draw):
    def frag(k):
        a = draw(st.integers(1, 500))
        return ["F", f"c{k}", a, a + draw(st.integers(0, 300)), draw(st.sampled_from([1, -1]))]

    def some_rows(lo, hi):
        rows = []
        for _ in range(draw(st.integers(lo, hi))):
            if rows and rows[-1][0] == "F" and draw(st.integers(0, 2)) == 0:
                rows.append(["G", draw(st.sampled_from([1, 100, 200])), "scaffold"])
            counter[0] += 1
            rows.append(frag(counter[0]))
        return rows

    counter = [0]
    scaffolds = []
    for i in range(draw(st.integers(1, 3))):
        ops = [["new", some_rows(0, 3)]]
        for _ in range(draw(st.integers(1, 6))):
            kind = draw(st.sampled_from(["read", "read", "add_row", "append", "append", "reverse"]))
            if kind == "add_row":
                counter[0] += 1
                ops.append(["add_row", frag(counter[0]) if draw(st.integers(0, 3)) else ["G", draw(st.sampled_from([1, 200])), "scaffold"]])
            elif kind == "append":
                ops.append(["append", some_rows(1, 3), ["G", 200, "scaffold"] if draw(st.booleans()) else None])
            else:
                ops.append([kind])
        if not any(op[0] in ("add_row", "append") for op in ops) and not ops[0][1]:
            counter[0] += 1
            ops.append(["add_row", frag(counter[0])])
        scaffolds.append([f"s{i + 1}", ops])
    return {"scaffolds": scaffolds}


@st.composite
def cli_cases(draw):
    if draw(st.booleans()):
        c = draw(c03.cli_cases())
        return c
    return draw(c01.cases(cli=True))


@st.composite
def cache_cases(draw):
    f = draw(gen.fasta_file(max_records=4))
    f["records"] = [r for r in f["records"] if not r[0].startswith("#")] or [["r1", "", "ACGT", 60, "\n"]]
    case = {"fasta": f, "buffer": draw(st.sampled_from([1, 3, 64, 250000]))}
    if draw(st.integers(0, 7)) == 0:
        i = draw(st.integers(0, len(f["records"]) - 1))
        dup = list(draw(gen.fasta_record(98, min_len=1)))
        dup[0] = f["records"][i][0]
        f["records"].insert(draw(st.sampled_from([i + 1, len(f["records"])])), dup)
        case["dup"] = True
        return case
    if draw(st.booleans()):
        g = draw(gen.fasta_file(max_records=3, min_len=1))
        g["records"] = [r for r in g["records"] if not r[0].startswith("#")] or [["r1", "", "ACGTAC", 60, "\n"]]
        case["stale"] = g
        case["stale_equal"] = draw(st.booleans())
        case["stale_which"] = draw(st.sampled_from(["both", "agp", "fai"]))
    return case


def long_line_cache_cases(tier, shard, nshards):
    from vf.props.c04 import long_line_cases

    for c in long_line_cases(tier, shard, nshards):
        if c["fasta"]["records"][0][3] >= 65536:
            yield {"fasta": c["fasta"], "buffer": c["buffer"]}


def huge_cases(tier, shard, nshards):
    yield from c05.huge_cases(tier, shard, nshards)


SUBS = [
    Sub("cache_write_error", kind="hyp", strategy=lambda: st.builds(lambda f, c: {"fasta": {"records": [r for r in f["records"] if not r[0].startswith("#")] or [["r1", "", "ACGTNNACGT", 60, "\n"]], "final_newline": f["final_newline"]}, "chunk": c},
                                                              gen.fasta_file(max_records=3, min_len=1), st.sampled_from([7, 64, 8192])), body=body_cache_write_error,
        budget={"quick": 160, "thorough": 3000}, desc="ENOSPC injected at every write step of the index files: an .agp left behind must still be valid and complete"),
    Sub("cache_long_lines", kind="enum", cases=long_line_cache_cases, body=body_cache,
        budget={"quick": 28, "thorough": 28}, desc=".agp cache of FASTA files with sequence lines of 64 KiB - 1.3 MiB"),
    Sub("format_huge", kind="enum", cases=huge_cases, body=body_format,
        budget={"quick": 12, "thorough": 12}, desc="format_agp on objects of 8 191 - 40 000 rows (part numbers, coordinates)"),
    Sub("format", kind="hyp", strategy=format_cases, body=body_format,
        budget={"quick": 8000, "thorough": 150000}, desc="format_agp on arbitrary assemblies"),
    Sub("built", kind="hyp", strategy=built_cases, body=body_built,
        budget={"quick": 6000, "thorough": 100000}, desc="scaffolds grown step by step (add_row / append_scaffold with and without gap / reverse) with the length properties read in between; AGP valid and last object end = Scaffold.length"),
    Sub("remap", kind="hyp", strategy=lambda: c01.cases().map(lambda c: {k: v for k, v in c.items() if k != "no_default_gap"}), body=body_remap,
        budget={"quick": 12000, "thorough": 250000}, desc="format_agp on every assembly returned by remapping"),
    Sub("cli", kind="hyp", strategy=cli_cases, body=body_cli,
        budget={"quick": 240, "thorough": 3000}, desc="AGP files written by pretext-to-asm (plain and FASTA companion + cache) and asm-format"),
    Sub("cache", kind="hyp", strategy=cache_cases, body=body_cache,
        budget={"quick": 1600, "thorough": 30000}, desc=".agp cache written beside an indexed FASTA"),
]
