"""
Reference models, written from the property statements.  Nothing here imports
from `tola`; conversion between plain rows and tola objects lives in vf/conv.py.

Plain row:   ["F", contig, start, end, strand]  or  ["F", contig, start, end, strand, [tags]]
             ["G", length, gap_type]
Plain scaffold: [name, [rows]]
"""

from __future__ import annotations


def is_frag(row):
    return row[0] == "F"


def is_gap(row):
    return row[0] == "G"


def row_len(row):
    return row[3] - row[2] + 1 if row[0] == "F" else row[1]


def rows_len(rows):
    return sum(row_len(r) for r in rows)


def layout(rows):
    """[(scaffold_start, scaffold_end)] per row, 1-based inclusive."""
    out = []
    p = 0
    for r in rows:
        n = row_len(r)
        out.append((p + 1, p + n))
        p += n
    return out


def brute_overlap(rows, a, b):
    """
    C12 oracle: indices (i, j) of the first / last row whose span intersects
    [a, b] after stripping leading and trailing gap rows, plus the scaffold
    coordinates of that run; None if no contig row intersects the query.
    """
    spans = layout(rows)
    hits = [k for k, (s, e) in enumerate(spans) if s <= b and e >= a]
    while hits and is_gap(rows[hits[0]]):
        hits.pop(0)
    while hits and is_gap(rows[hits[-1]]):
        hits.pop()
    if not hits:
        return None
    i, j = hits[0], hits[-1]
    return i, j, spans[i][0], spans[j][1]


# --------------------------------------------------------------------------
# remap oracles (C01, C02, C07, C11)


def all_frags(scaffolds):
    for _name, rows in scaffolds:
        for r in rows:
            if r[0] == "F":
                yield r


def contig_table(input_scaffolds):
    """contig name -> sorted list of (start, end) input intervals"""
    tbl = {}
    for r in all_frags(input_scaffolds):
        tbl.setdefault(r[1], []).append((r[2], r[3]))
    for v in tbl.values():
        v.sort()
    return tbl


def partition_violation(input_scaffolds, output_scaffolds):
    """
    C01 oracle. Every base of every input contig in exactly one output fragment;
    every output fragment a sub-interval of one input contig under its name.
    Returns a message or None.
    """
    tbl = contig_table(input_scaffolds)
    got = {}
    for r in all_frags(output_scaffolds):
        name, a, b = r[1], r[2], r[3]
        ivs = tbl.get(name)
        if ivs is None:
            return f"output fragment {name}:{a}-{b} names no input contig (invented)"
        home = [iv for iv in ivs if iv[0] <= a and b <= iv[1]]
        if not home:
            return f"output fragment {name}:{a}-{b} is not inside any input contig {ivs}"
        got.setdefault((name, home[0]), []).append((a, b))
    for name, ivs in tbl.items():
        for iv in ivs:
            parts = sorted(got.get((name, iv), []))
            if not parts:
                return f"input contig {name}:{iv[0]}-{iv[1]} is missing from all outputs (lost)"
            if parts[0][0] != iv[0]:
                return f"input contig {name}:{iv[0]}-{iv[1]}: first output piece starts at {parts[0][0]} (lost bases)"
            for (a1, b1), (a2, b2) in zip(parts, parts[1:]):
                if a2 <= b1:
                    return f"input contig {name}:{iv[0]}-{iv[1]}: pieces {a1}-{b1} and {a2}-{b2} overlap (duplicated bases)"
                if a2 != b1 + 1:
                    return f"input contig {name}:{iv[0]}-{iv[1]}: hole between {b1} and {a2} (lost bases)"
            if parts[-1][1] != iv[1]:
                return f"input contig {name}:{iv[0]}-{iv[1]}: last output piece ends at {parts[-1][1]} (lost bases)"
    return None


def lead_end(r):
    """The contig end a fragment row shows first in reading direction: (contig, coordinate, side)."""
    return (r[1], r[2], "lo") if r[4] >= 0 else (r[1], r[3], "hi")


def trail_end(r):
    return (r[1], r[3], "hi") if r[4] >= 0 else (r[1], r[2], "lo")


def adjacencies(rows):
    """
    Yields (frozenset({end_x, end_y}), x_index, y_index, rows_between) for each
    pair of consecutive fragments of a scaffold.
    """
    prev = None
    between = []
    for i, r in enumerate(rows):
        if r[0] == "F":
            if prev is not None:
                yield frozenset((trail_end(rows[prev]), lead_end(r))), prev, i, between
            prev = i
            between = []
        else:
            between.append(r)


def adjacency_set(scaffolds):
    out = set()
    for _n, rows in scaffolds:
        for adj, *_ in adjacencies(rows):
            out.add(adj)
    return out


def neighbour_table(input_scaffolds):
    """adjacency -> list of rows between the two contigs in the input"""
    tbl = {}
    for _n, rows in input_scaffolds:
        for adj, _i, _j, between in adjacencies(rows):
            tbl[adj] = [list(b) for b in between]
    return tbl


# --------------------------------------------------------------------------
# C02: core runs


def core_segments(rows, lo, hi, orient):
    """
    The bases lo..hi (scaffold coordinates) of an input scaffold as a list of
    segments in reading order: ["F", contig, a, b, strand] sub-intervals and the
    input gap rows strictly between two of them; reversed and strand-flipped if
    orient == -1.
    """
    segs = []
    for (s, e), r in zip(layout(rows), rows):
        if e < lo or s > hi:
            continue
        if r[0] == "F":
            cs, ce = max(s, lo), min(e, hi)
            if r[4] >= 0:
                a, b = r[2] + (cs - s), r[2] + (ce - s)
            else:
                a, b = r[3] - (ce - s), r[3] - (cs - s)
            segs.append(["F", r[1], a, b, r[4]])
        else:
            segs.append(["G", r[1], r[2]])
    while segs and segs[0][0] == "G":
        segs.pop(0)
    while segs and segs[-1][0] == "G":
        segs.pop()
    if orient < 0:
        segs = [[x[0], x[1], x[2], x[3], -x[4]] if x[0] == "F" else x for x in reversed(segs)]
    return segs


def _seg_begin(x):
    return x[2] if x[4] >= 0 else x[3]


def _seg_end(x):
    return x[3] if x[4] >= 0 else x[2]


def match_run(segs, rows, at):
    """Do output rows[at:at+len(segs)] realise the segment list? Returns None or a reason."""
    if at + len(segs) > len(rows):
        return "run would pass the end of the scaffold"
    last = len(segs) - 1
    for k, seg in enumerate(segs):
        row = rows[at + k]
        if seg[0] == "G":
            if row[0] != "G" or row[1] != seg[1] or row[2] != seg[2]:
                return f"row {at + k}: expected input gap {seg}, found {row}"
            continue
        if row[0] != "F" or row[1] != seg[1] or row[4] != seg[4]:
            return f"row {at + k}: expected {seg[1]} strand {seg[4]}, found {row}"
        if not (row[2] <= seg[2] and seg[3] <= row[3]):
            return f"row {at + k}: {row} does not contain core segment {seg}"
        if k > 0 and _seg_begin(row) != _seg_begin(seg):
            return f"row {at + k}: {row} does not begin where segment {seg} begins (not contiguous)"
        if k < last and _seg_end(row) != _seg_end(seg):
            return f"row {at + k}: {row} does not end where segment {seg} ends (not contiguous)"
    return None


def find_run(segs, output_scaffolds):
    """
    All places (asm_key, scaffold_name, scaffold_index, row_index) where the
    segment list is realised; plus the reasons of near misses (first segment matched).
    output_scaffolds: list of (asm_key, name, rows)
    """
    first = segs[0]
    found = []
    reasons = []
    for si, (key, name, rows) in enumerate(output_scaffolds):
        for at, row in enumerate(rows):
            if row[0] == "F" and row[1] == first[1] and row[2] <= first[3] and first[2] <= row[3]:
                why = match_run(segs, rows, at)
                if why is None:
                    found.append((key, name, si, at))
                else:
                    reasons.append(f"{name}@{at}: {why}")
    return found, reasons


# --------------------------------------------------------------------------
# plain readers (no regex shared with the code under test)


def read_agp(text):
    """AGP text -> (header_lines, [[object, rows]]), rows with tags list when present."""
    scaffolds = []
    header = []
    cur = None
    for line in text.split("\n"):
        if line.strip() == "":
            continue
        if line.startswith("#"):
            header.append(line)
            continue
        f = line.rstrip("\t\r ").split("\t")
        if cur is None or cur[0] != f[0]:
            cur = [f[0], []]
            scaffolds.append(cur)
        if f[4] in ("U", "N"):
            cur[1].append(["G", int(f[5]), f[6]])
        else:
            row = ["F", f[5], int(f[6]), int(f[7]), {"+": 1, "-": -1, "?": 0}[f[8]]]
            if len(f) > 9:
                row.append(f[9:])
            cur[1].append(row)
    return header, scaffolds


TPF_GAP = {"TYPE-2": "scaffold", "TYPE-3": "contig"}


def read_tpf(text):
    scaffolds = []
    header = []
    cur = None
    for line in text.split("\n"):
        if line.strip() == "":
            continue
        if line.startswith("#"):
            header.append(line)
            continue
        f = line.split("\t")
        if f[0] == "GAP":
            gt = TPF_GAP.get(f[1], f[1].lower().replace("-", "_"))
            cur[1].append(["G", int(f[2]), gt])
            continue
        if cur is None or cur[0] != f[2]:
            cur = [f[2], []]
            scaffolds.append(cur)
        name, _, coords = f[1].rpartition(":")
        a, _, b = coords.partition("-")
        cur[1].append(["F", name, int(a), int(b), {"PLUS": 1, "MINUS": -1, "UNKNOWN": 0}[f[3]]])
    return header, scaffolds


# --------------------------------------------------------------------------
# FASTA reference reader and "apply AGP to FASTA" (C03, C04, C13, C14, C15)

_COMP_PAIRS = [
    ("A", "T"), ("C", "G"), ("G", "C"), ("T", "A"),
    ("R", "Y"), ("Y", "R"), ("M", "K"), ("K", "M"),
    ("S", "S"), ("W", "W"), ("H", "D"), ("D", "H"),
    ("B", "V"), ("V", "B"), ("N", "N"),
]
COMPLEMENT = {}
for _a, _b in _COMP_PAIRS:
    COMPLEMENT[ord(_a)] = ord(_b)
    COMPLEMENT[ord(_a.lower())] = ord(_b.lower())


def revcomp(seq: bytes) -> bytes:
    return bytes(COMPLEMENT.get(c, c) for c in reversed(seq))


def read_fasta(data: bytes):
    """
    Split-on-header reference reader. Returns a list of dicts:
    name, seq (bytes), offset (byte offset of first residue), width (residues on the first
    sequence line), linebytes (bytes of the first sequence line incl. terminator, None if that
    line is unterminated), n_lines.
    """
    records = []
    pos = 0
    n = len(data)
    cur = None
    while pos < n:
        nl = data.find(b"\n", pos)
        end = n if nl < 0 else nl + 1
        line = data[pos:end]
        if line[:1] == b">":
            toks = line[1:].split()
            cur = {"name": toks[0].decode() if toks else "", "seq": bytearray(), "offset": end, "width": 0,
                   "linebytes": None, "n_lines": 0}
            records.append(cur)
        elif cur is not None:
            body = line
            terminated = body.endswith(b"\n")
            if terminated:
                body = body[:-1]
                if body.endswith(b"\r"):
                    body = body[:-1]
            if body == b"" and terminated:
                pos = end
                continue  # an empty line (allowed after the last sequence line of a record)
            if cur["n_lines"] == 0:
                cur["width"] = len(body)
                cur["linebytes"] = len(line) if terminated else None
            cur["n_lines"] += 1
            cur["seq"] += body
        pos = end
    for r in records:
        r["seq"] = bytes(r["seq"])
    return records


def acgt_runs(seq: bytes):
    """Derived assembly of one record as plain rows (C04): maximal ACGT runs -> fragments, other runs -> gaps."""
    rows = []
    i = 0
    n = len(seq)
    good = b"ACGTacgt"
    while i < n:
        j = i
        is_seq = seq[i] in good
        while j < n and (seq[j] in good) == is_seq:
            j += 1
        rows.append((is_seq, i + 1, j))
        i = j
    return rows


def wrap(seq: bytes, width: int) -> bytes:
    return b"".join(seq[i : i + width] + b"\n" for i in range(0, len(seq), width))


def apply_agp_to_fasta(seqs: dict, scaffolds, width=60, gap=b"N") -> bytes:
    """
    seqs: name -> bytes.  scaffolds: plain [[name, rows]].  '-' rows reverse-complemented with
    the hand-typed table above, '?' (0) rows forward as AGP specifies, gaps as N.
    """
    out = []
    for name, rows in scaffolds:
        out.append(b">" + name.encode() + b"\n")
        parts = []
        for r in rows:
            if r[0] == "G":
                parts.append(gap * r[1])
            else:
                piece = seqs[r[1]][r[2] - 1 : r[3]]
                parts.append(revcomp(piece) if r[4] == -1 else piece)
        out.append(wrap(b"".join(parts), width))
    return b"".join(out)


# --------------------------------------------------------------------------
# C06: AGP validator


def agp_validate(text, lengths=None):
    """
    Returns None or a message. lengths: optional {object name: expected total length}.
    Objects are runs of consecutive lines with equal column 1.
    """
    objects = []
    for ln, line in enumerate(text.split("\n"), 1):
        if line == "" or line.startswith("#"):
            continue
        f = line.split("\t")
        if len(f) < 9:
            return f"line {ln}: {len(f)} columns"
        if not objects or objects[-1][0] != f[0]:
            objects.append((f[0], []))
        objects[-1][1].append((ln, f))
    names = [o[0] for o in objects]
    seen = {}
    for name, rows in objects:
        if name in seen:
            return f"object {name!r} appears in two separate blocks"
        seen[name] = True
        pos = 0
        for k, (ln, f) in enumerate(rows, 1):
            try:
                beg, end, part = int(f[1]), int(f[2]), int(f[3])
            except ValueError:
                return f"line {ln}: non-numeric object coordinates {f[1:4]}"
            if beg != pos + 1:
                return f"line {ln}: object {name!r} part {k} begins at {beg}, previous part ended at {pos} (hole or overlap)"
            if part != k:
                return f"line {ln}: part number {part}, expected {k}"
            if f[4] == "W":
                try:
                    cb, ce = int(f[6]), int(f[7])
                except ValueError:
                    return f"line {ln}: non-numeric component coordinates"
                if ce < cb:
                    return f"line {ln}: component end {ce} < begin {cb}"
                if end - beg != ce - cb:
                    return f"line {ln}: object span {beg}-{end} ({end - beg + 1}) != component span {cb}-{ce} ({ce - cb + 1})"
                if f[8] not in ("+", "-", "?"):
                    return f"line {ln}: orientation {f[8]!r}"
                if f[5] == "":
                    return f"line {ln}: empty component id"
            elif f[4] == "U":
                try:
                    glen = int(f[5])
                except ValueError:
                    return f"line {ln}: non-numeric gap length {f[5]!r}"
                if end - beg + 1 != glen:
                    return f"line {ln}: gap span {beg}-{end} ({end - beg + 1}) != stated length {glen}"
                if f[6] == "":
                    return f"line {ln}: empty gap type"
                if f[7] != "yes":
                    return f"line {ln}: linkage {f[7]!r}, expected 'yes'"
            else:
                return f"line {ln}: component type {f[4]!r}, expected W or U"
            pos = end
        if lengths is not None:
            if name not in lengths:
                return f"object {name!r} not expected (expected {sorted(lengths)[:5]})"
            if lengths[name] != pos:
                return f"object {name!r}: last object end {pos} != scaffold length {lengths[name]}"
    if lengths is not None and set(lengths) != set(names):
        return f"objects {sorted(set(lengths) - set(names))[:5]} missing from the AGP"
    return None
