"""
Reference models, written from the property statements.  Nothing here imports
from `tola`; conversion between plain rows and tola objects lives in vf/conv.py.

Plain row:   ["F", contig, start, end, strand]  or  ["F", contig, start, end, strand, [tags]]
             ["G", length, gap_type]
Plain scaffold: [name, [rows]]
"""

from __future__ import annotations


def is_frag(row):
    return row[0] == "F"


def is_gap(row):
    return row[0] == "G"


def row_len(row):
    return row[3] - row[2] + 1 if row[0] == "F" else row[1]


def rows_len(rows):
    return sum(row_len(r) for r in rows)


def layout(rows):
    """[(scaffold_start, scaffold_end)] per row, 1-based inclusive."""
    out = []
    p = 0
    for r in rows:
        n = row_len(r)
        out.append((p + 1, p + n))
        p += n
    return out


def brute_overlap(rows, a, b):
    """
    C12 oracle: indices (i, j) of the first / last row whose span intersects
    [a, b] after stripping leading and trailing gap rows, plus the scaffold
    coordinates of that run; None if no contig row intersects the query.
    """
    spans = layout(rows)
    hits = [k for k, (s, e) in enumerate(spans) if s <= b and e >= a]
    while hits and is_gap(rows[hits[0]]):
        hits.pop(0)
    while hits and is_gap(rows[hits[-1]]):
        hits.pop()
    if not hits:
        return None
    i, j = hits[0], hits[-1]
    return i, j, spans[i][0], spans[j][1]
