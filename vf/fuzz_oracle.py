"""The oracle used inside the Atheris target, importable without atheris (for replays)."""
from vf.props import c05
from vf.runner import Violation


class _Rec:
    def note(self, *a, **k):
        pass

    def count(self, *a, **k):
        pass


def check_text(which, text):
    case = {"format": which, "text": text, "ops": ["fuzz"]}
    c05.body_lines(case, _Rec())
    try:
        asm = c05.parse(text, which)
    except Exception:  # noqa: BLE001
        return False
    once = c05.fmt(asm, which)
    try:
        back = c05.parse(once, which)
    except Exception as e:  # noqa: BLE001
        raise Violation(f"{which}: text written by the formatter does not parse: {type(e).__name__}: {e}") from e
    a, b = c05.plain_of(asm), c05.plain_of(back)
    odd_gap_types = False
    if which == "tpf":
        # TPF carries the AGP gap types only (statement: TYPE-2 / TYPE-3 / upper-case-dash mapping of those);
        # other spellings ('TYPe-2' -> 'type_2') have no inverse and are not compared
        for (_n, rows_a), (_m, rows_b) in zip(a["scaffolds"], b["scaffolds"]):
            for ra, rb in zip(rows_a, rows_b):
                if ra[0] == "G" and rb[0] == "G" and ra[2] not in c05.GAP_TYPES:
                    ra[2] = rb[2] = "<non-AGP gap type>"
                    odd_gap_types = True
    if a != b:
        raise Violation(f"{which}: parse(format(parse(text))) differs from parse(text): {c05.diff(a, b)}")
    if not odd_gap_types and c05.fmt(back, which) != once:
        raise Violation(f"{which}: formatting is not a fixed point after one round")
    return True
