"""
File-operation shim for C15: numbered steps, crash injection, cooperative scheduling.

While a Sim is active, Python-level file operations on *watched* paths (everything in the case's
private directory except the FASTA file itself) go through the shim:

  stat / open-for-read / open-for-write (create, truncate) / every flush of `chunk` bytes /
  close / replace / rename / unlink / os.open

Each of them is one numbered step.  Data written to a watched file is buffered by the shim and
reaches the real file only in flushes of `chunk` bytes (a superset of CPython's 8192-byte flush
boundaries), so a crash (Crash raised before step j) loses exactly the unflushed data and a
concurrent reader sees exactly the flushed prefix - what the operating system can show for
processes performing these operations.  Reads are atomic at open time.

With a Scheduler the steps are also the only points where control changes hands between
virtual processes (threads holding a baton; exactly one runs at a time).
"""

from __future__ import annotations

import builtins
import io
import os
import threading


class Crash(BaseException):
    """The simulated process is killed before the next file operation."""


_real = {
    "io_open": io.open,
    "builtins_open": builtins.open,
    "os_open": os.open,
    "os_replace": os.replace,
    "os_rename": os.rename,
    "os_unlink": os.unlink,
    "os_remove": os.remove,
    "os_stat": os.stat,
    "os_getpid": os.getpid,
}


class SimWriter:
    def __init__(self, sim, raw, text, path):
        self.sim = sim
        self.raw = raw  # unbuffered binary file
        self.text = text
        self.path = path
        self.pending = bytearray()
        self.closed = False
        self.name = path

    def write(self, data):
        if self.closed:
            raise ValueError("I/O operation on closed file")
        b = data.encode() if self.text else bytes(data)
        self.pending += b
        k = self.sim.chunk
        while len(self.pending) >= k:
            self.sim.step("flush", self.path)
            self.raw.write(bytes(self.pending[:k]))
            del self.pending[:k]
        return len(data)

    def writelines(self, lines):
        for line in lines:
            self.write(line)

    def flush(self):
        if self.sim.crashed or self.closed:
            return
        if self.pending:
            self.sim.step("flush", self.path)
            self.raw.write(bytes(self.pending))
            self.pending.clear()

    def fileno(self):
        # no descriptor is handed out: code that wants one (sendfile / copy_file_range fast paths) falls
        # back to write(), which is what the shim observes
        raise io.UnsupportedOperation("fileno")

    def writable(self):
        return True

    def tell(self):
        return self.raw.tell() + len(self.pending)

    def close(self):
        if self.closed:
            return
        self.closed = True
        try:
            if not self.sim.crashed:
                self.sim.step("close", self.path)
                if self.pending:
                    self.raw.write(bytes(self.pending))
        finally:
            self.pending.clear()
            self.raw.close()

    def __enter__(self):
        return self

    def __exit__(self, *a):
        self.close()
        return False

    def __del__(self):
        try:
            self.pending.clear()
            self.raw.close()
        except Exception:  # noqa: BLE001
            pass


class Sim:
    def __init__(self, watch_dir, keep=(), chunk=64, crash_at=None, scheduler=None, fault="crash"):
        self.watch_dir = str(watch_dir).rstrip("/") + "/"
        self.keep = {str(k) for k in keep}  # paths inside watch_dir that are NOT shimmed (the FASTA)
        self.chunk = chunk
        self.crash_at = crash_at
        self.fault = fault  # "crash": the process dies at step crash_at; "oserror": that one step fails with ENOSPC and the process goes on
        self.scheduler = scheduler
        self.steps = 0
        self.crashed = False
        self.log = []
        self.fds = {}
        self.lock = threading.Lock()
        self.pids = {}

    # ---- bookkeeping
    def watched(self, path):
        try:
            p = os.fspath(path)
        except TypeError:
            return False
        if isinstance(p, bytes):
            p = p.decode()
        p = os.path.abspath(p)
        return p.startswith(self.watch_dir) and p not in self.keep

    def step(self, what, path):
        if self.scheduler is not None:
            self.scheduler.yield_point()
        with self.lock:
            if self.crashed:
                raise Crash()
            self.steps += 1
            self.log.append((self.steps, what, os.path.basename(str(path))))
            if self.crash_at is not None and self.steps == self.crash_at:
                if self.fault == "oserror":
                    import errno

                    raise OSError(errno.ENOSPC, "No space left on device (injected)", str(path))
                self.crashed = True
                raise Crash()

    # ---- patched entry points
    def _open(self, file, mode="r", buffering=-1, encoding=None, errors=None, newline=None, closefd=True, opener=None):
        if isinstance(file, int):
            path = self.fds.get(file)
            if path is None:
                return _real["io_open"](file, mode, buffering, encoding, errors, newline, closefd, opener)
            raw = _real["io_open"](file, "wb" if "w" in mode or "a" in mode or "x" in mode or "+" in mode else "rb", buffering=0, closefd=closefd)
            if "r" in mode and "+" not in mode:
                return raw
            return SimWriter(self, raw, "b" not in mode, path)
        if not self.watched(file):
            return _real["io_open"](file, mode, buffering, encoding, errors, newline, closefd, opener)
        path = os.path.abspath(os.fspath(file))
        if "r" in mode and "+" not in mode:
            self.step("open-read", path)
            with _real["io_open"](path, "rb") as fh:
                data = fh.read()
            if "b" in mode:
                return io.BytesIO(data)
            enc = "utf-8" if encoding in (None, "locale") else encoding
            text = data.decode(enc, errors or "strict")
            if newline is None:
                text = text.replace("\r\n", "\n").replace("\r", "\n")
            return io.StringIO(text)
        self.step("open-write", path)
        bmode = ("x" if "x" in mode else "a" if "a" in mode else "w") + "b"
        raw = _real["io_open"](path, bmode, buffering=0)
        return SimWriter(self, raw, "b" not in mode, path)

    def _os_open(self, path, flags, mode=0o777, *, dir_fd=None):
        if dir_fd is not None or not self.watched(path):
            return _real["os_open"](path, flags, mode, dir_fd=dir_fd)
        self.step("os.open", path)
        fd = _real["os_open"](path, flags, mode)
        self.fds[fd] = os.path.abspath(os.fspath(path))
        return fd

    def _two(self, name):
        def f(src, dst, *a, **k):
            if self.watched(src) or self.watched(dst):
                self.step(name, dst)
            return _real["os_" + name](src, dst, *a, **k)

        return f

    def _one(self, name):
        def f(path, *a, **k):
            if self.watched(path):
                self.step(name, path)
            return _real["os_" + name](path, *a, **k)

        return f

    def _getpid(self):
        return self.pids.get(threading.get_ident(), _real["os_getpid"]())

    def __enter__(self):
        io.open = self._open
        builtins.open = self._open
        os.open = self._os_open
        os.replace = self._two("replace")
        os.rename = self._two("rename")
        os.unlink = self._one("unlink")
        os.remove = self._one("remove")
        os.stat = self._one("stat")
        os.getpid = self._getpid
        return self

    def __exit__(self, *a):
        io.open = _real["io_open"]
        builtins.open = _real["builtins_open"]
        os.open = _real["os_open"]
        os.replace = _real["os_replace"]
        os.rename = _real["os_rename"]
        os.unlink = _real["os_unlink"]
        os.remove = _real["os_remove"]
        os.stat = _real["os_stat"]
        os.getpid = _real["os_getpid"]
        for fd in list(self.fds):
            try:
                os.close(fd)
            except OSError:
                pass
        return False


class Scheduler:
    """
    Runs callables as virtual processes: threads that hold a baton, one at a time; the baton can
    change hands only at Sim steps and when a process ends.

    `schedule` is a list of segments [process, n]: that process performs its next n file
    operations (n = None: runs until it ends), then the next segment starts; a bare integer p
    means [p, 1].  Segments of finished processes are skipped.  When the list is exhausted the
    running process continues and the others follow in index order.
    """

    def __init__(self, schedule):
        self.segments = [[x, 1] if isinstance(x, int) else [x[0], x[1]] for x in schedule]
        self.cond = threading.Condition()
        self.current = None
        self.threads = []
        self.done = []
        self.results = []
        self.switches = 0

    def _next(self, me, finished):
        n_procs = len(self.done)
        while self.segments:
            proc, n = self.segments[0]
            proc %= n_procs
            if self.done[proc] or n == 0:
                self.segments.pop(0)
                continue
            if proc == me and not finished:
                if n is not None:
                    self.segments[0][1] = n - 1
                return me
            return proc
        if not finished and not self.done[me]:
            return me
        alive = [i for i, d in enumerate(self.done) if not d]
        return alive[0] if alive else None

    def yield_point(self):
        me = self._index()
        if me is None:
            return
        with self.cond:
            nxt = self._next(me, False)
            if nxt != me:
                self.switches += 1
                self.current = nxt
                self.cond.notify_all()
                while self.current != me:
                    self.cond.wait()
                # resumed: account for the step about to be performed
                seg = self.segments[0] if self.segments else None
                if seg is not None and seg[0] % len(self.done) == me and seg[1] is not None and seg[1] > 0:
                    seg[1] -= 1

    def _index(self):
        ident = threading.get_ident()
        for i, t in enumerate(self.threads):
            if t.ident == ident:
                return i
        return None

    def run(self, funcs, sim=None, timeout=60):
        n = len(funcs)
        self.done = [False] * n
        self.results = [None] * n

        def wrap(i, fn):
            with self.cond:
                while self.current != i:
                    self.cond.wait()
            try:
                self.results[i] = ("ok", fn())
            except Crash:
                self.results[i] = ("crash", None)
            except BaseException as e:  # noqa: BLE001
                self.results[i] = ("raised", e)
            finally:
                with self.cond:
                    self.done[i] = True
                    self.current = self._next(i, True)
                    self.cond.notify_all()

        self.threads = [threading.Thread(target=wrap, args=(i, fn), daemon=True) for i, fn in enumerate(funcs)]
        for i, t in enumerate(self.threads):
            t.start()
            if sim is not None:
                sim.pids[t.ident] = 40000 + i
        with self.cond:
            first = self.segments[0][0] % n if self.segments else 0
            self.current = first
            self.cond.notify_all()
        for t in self.threads:
            t.join(timeout)
            if t.is_alive():
                raise RuntimeError("virtual process did not finish (scheduler deadlock)")
        return self.results
