#!/bin/sh
# Offline setup: make sure hypothesis is importable by /venv/bin/python (it is pre-installed; this is a no-op then).
set -e
cd "$(dirname "$0")"
/venv/bin/python -c "import hypothesis" 2>/dev/null || \
  /venv/bin/pip install -q --no-index --find-links /opt/veriftools/wheels hypothesis
# atheris (coverage-guided fuzzing, C05 thorough) goes into a private directory
if [ ! -d .deps/atheris ]; then
  /venv/bin/pip install -q --no-index --find-links /opt/veriftools/wheels --target .deps atheris 2>/dev/null || true
fi
/venv/bin/python -c "import hypothesis, click, yaml; print('setup ok: hypothesis', hypothesis.__version__)"
